//! Input file sets for the OS and DET engines: successful inputs and inputs failing at each stage.

use std::path::Path;

#[derive(Clone, Debug)]
pub struct InputSet {
    pub name: String,
    /// None: generation is expected to be possible; Some(stage): built to fail at that stage.
    pub stage: Option<&'static str>,
    /// (file name, bytes); the start file may be absent (stage "missing-file").
    pub files: Vec<(String, Vec<u8>)>,
    pub start: String,
}

fn rd(p: &Path) -> Option<Vec<u8>> {
    std::fs::read(p).ok()
}

fn replace_once(hay: &[u8], from: &str, to: &str) -> Vec<u8> {
    let s = String::from_utf8_lossy(hay).to_string();
    s.replacen(from, to, 1).into_bytes()
}

pub fn extra_sibling(kind: u64) -> Option<(String, Vec<u8>)> {
    match kind {
        1 => Some((
            "zz_extra_valid.xsd".into(),
            br#"<?xml version="1.0"?><xs:schema xmlns:xs="http://www.w3.org/2001/XMLSchema" xmlns:z="http://example.com/zz/extra" targetNamespace="http://example.com/zz/extra"><xs:complexType name="ExtraType"><xs:sequence><xs:element name="e" type="xs:string"/></xs:sequence></xs:complexType></xs:schema>"#.to_vec(),
        )),
        2 => Some(("aa_extra_malformed.xsd".into(), b"<xs:schema xmlns:xs=\"http://www.w3.org/2001/XMLSchema\"><xs:complexType name=\"Broken\"><xs:sequence>".to_vec())),
        3 => Some(("mm_extra_notschema.xsd".into(), b"<?xml version=\"1.0\"?><html><body>not a schema</body></html>".to_vec())),
        _ => None,
    }
}

/// Extra entries in the scanned directory that no import reaches: (name, bytes, is_directory).
/// 4: a dozen more files; 5: hidden .xsd; 6: upper-case .XSD; 7: empty .xsd; 8: a directory whose name ends in .xsd;
/// 9: 256 unreadable (non-UTF-8) .xsd files
pub fn extra_entries(kind: u64) -> Vec<(String, Vec<u8>, bool)> {
    const VALID: &[u8] = br#"<?xml version="1.0"?><xs:schema xmlns:xs="http://www.w3.org/2001/XMLSchema" xmlns:z="http://example.com/zz/extra" targetNamespace="http://example.com/zz/extra"><xs:complexType name="ExtraType"><xs:sequence><xs:element name="e" type="xs:string"/></xs:sequence></xs:complexType></xs:schema>"#;
    match kind {
        1..=3 => extra_sibling(kind).map(|(n, b)| vec![(n, b, false)]).unwrap_or_default(),
        4 => {
            let mut v = Vec::new();
            for i in 0..8 {
                v.push((format!("note{i:02}.txt"), format!("note {i}").into_bytes(), false));
            }
            for i in 0..6 {
                v.push((format!("unused{i:02}.xsd"), VALID.to_vec(), false));
            }
            v
        }
        5 => vec![(".hidden.xsd".into(), VALID.to_vec(), false)],
        6 => vec![("UPPER.XSD".into(), VALID.to_vec(), false)],
        7 => vec![("empty.xsd".into(), Vec::new(), false)],
        8 => vec![("folder.xsd".into(), Vec::new(), true)],
        // 256 siblings that cannot be read as text: generation must fail, and "how many" must not leak into the exit
        // status in a way that wraps to 0
        9 => (0..256).map(|i| (format!("bad{i:03}.xsd"), vec![0x3c, 0xff, 0xfe, 0x3e], false)).collect(),
        _ => vec![],
    }
}

pub fn input_sets() -> Vec<InputSet> {
    let repo = crate::repo_root();
    let verif = crate::verif_root();
    let mut v = Vec::new();
    let temp = rd(&repo.join("resources/temp_converter/tempconverter.wsdl"));
    let hello = rd(&repo.join("resources/hello/hello.wsdl"));
    let orders = rd(&verif.join("corpus/orders/orders.wsdl"));
    let chain: Vec<(String, Vec<u8>)> = ["a.xsd", "b.xsd", "c.xsd", "unrelated.xsd"]
        .iter()
        .filter_map(|n| rd(&verif.join("corpus/chain").join(n)).map(|b| ((*n).to_string(), b)))
        .collect();

    if let Some(t) = &temp {
        v.push(InputSet { name: "tempconverter".into(), stage: None, files: vec![("tempconverter.wsdl".into(), t.clone())], start: "tempconverter.wsdl".into() });
    }
    if chain.len() == 4 {
        v.push(InputSet { name: "chain".into(), stage: None, files: chain.clone(), start: "a.xsd".into() });
    }
    if let Some(o) = &orders {
        v.push(InputSet { name: "orders".into(), stage: None, files: vec![("orders.wsdl".into(), o.clone())], start: "orders.wsdl".into() });
    }
    if let Some(h) = &hello {
        v.push(InputSet { name: "hello".into(), stage: None, files: vec![("hello.wsdl".into(), h.clone())], start: "hello.wsdl".into() });
    }
    let num = rd(&repo.join("resources/number_services/number_services.wsdl"));
    if let Some(n) = &num {
        v.push(InputSet { name: "number_services".into(), stage: None, files: vec![("number_services.wsdl".into(), n.clone())], start: "number_services.wsdl".into() });
    }
    if let Some(b) = rd(&repo.join("resources/broadband_forum/cwmp-1-2.xsd")) {
        // a large output (> 64 KiB): buffer boundaries and multi-call writes
        v.push(InputSet { name: "big-cwmp".into(), stage: None, files: vec![("cwmp-1-2.xsd".into(), b)], start: "cwmp-1-2.xsd".into() });
    }
    // failing inputs, one per stage
    if let Some(t) = &temp {
        v.push(InputSet { name: "missing-file".into(), stage: Some("missing-file"), files: vec![("other.wsdl".into(), t.clone())], start: "tempconverter.wsdl".into() });
        let cut = t.len() / 2;
        v.push(InputSet { name: "malformed-start".into(), stage: Some("malformed-start"), files: vec![("tempconverter.wsdl".into(), t[..cut].to_vec())], start: "tempconverter.wsdl".into() });
        v.push(InputSet {
            name: "unsupported-binding".into(),
            stage: Some("unsupported-binding"),
            files: vec![("tempconverter.wsdl".into(), replace_once(t, "use=\"literal\"", "use=\"encoded\""))],
            start: "tempconverter.wsdl".into(),
        });
    }
    if chain.len() == 4 {
        let mut f = chain.clone();
        f.push(("bad_utf8.xsd".into(), vec![0x3c, 0xff, 0xfe, 0xfd, 0x3e]));
        v.push(InputSet { name: "unreadable-sibling".into(), stage: Some("unreadable-sibling"), files: f, start: "a.xsd".into() });
        let mut f = chain.clone();
        let cut = f[2].1.len() / 2;
        f[2].1.truncate(cut);
        v.push(InputSet { name: "malformed-sibling".into(), stage: Some("malformed-sibling"), files: f, start: "a.xsd".into() });
        let f: Vec<_> = chain.iter().filter(|(n, _)| n != "b.xsd").cloned().collect();
        v.push(InputSet { name: "unresolved-import".into(), stage: Some("unresolved-import"), files: f, start: "a.xsd".into() });
    }
    if let Some(o) = &orders {
        v.push(InputSet {
            name: "unresolved-reference".into(),
            stage: Some("unresolved-reference"),
            files: vec![("orders.wsdl".into(), replace_once(o, "element=\"tns:PlaceOrderResponse\"", "element=\"tns:NoSuchElement\""))],
            start: "orders.wsdl".into(),
        });
    }
    // inputs larger than 1 MiB (size thresholds of streaming / buffering paths), one succeeding and one failing
    {
        let mut big = String::from("<?xml version=\"1.0\" encoding=\"UTF-8\"?>\n<xs:schema xmlns:xs=\"http://www.w3.org/2001/XMLSchema\" xmlns:l=\"http://example.com/large/types\" elementFormDefault=\"qualified\" targetNamespace=\"http://example.com/large/types\">\n");
        for i in 0..5200 {
            big.push_str(&format!("  <xs:complexType name=\"Record{i:05}Type\"><xs:sequence><xs:element name=\"identifier\" type=\"xs:string\"/><xs:element name=\"quantity\" type=\"xs:int\" minOccurs=\"0\"/><xs:element name=\"remark\" type=\"xs:string\" minOccurs=\"0\" maxOccurs=\"unbounded\"/></xs:sequence></xs:complexType>\n"));
        }
        let cut = big.len() - 40; // in the middle of the last type
        v.push(InputSet { name: "large-malformed-start".into(), stage: Some("large-malformed-start"), files: vec![("large.xsd".into(), big.as_bytes()[..cut].to_vec())], start: "large.xsd".into() });
        big.push_str("</xs:schema>\n");
        v.push(InputSet { name: "large-ok".into(), stage: None, files: vec![("large.xsd".into(), big.into_bytes())], start: "large.xsd".into() });
    }
    // an input on which the library panics instead of returning Err (build_restrictions unwraps the value attribute):
    // "fails for any reason" includes this
    v.push(InputSet {
        name: "library-panics".into(),
        stage: Some("library-panics"),
        files: vec![("enum.xsd".into(), br#"<?xml version="1.0"?><xs:schema xmlns:xs="http://www.w3.org/2001/XMLSchema" xmlns:e="http://example.com/enum/novalue" targetNamespace="http://example.com/enum/novalue"><xs:simpleType name="Broken"><xs:restriction base="xs:string"><xs:enumeration/></xs:restriction></xs:simpleType></xs:schema>"#.to_vec())],
        start: "enum.xsd".into(),
    });
    for (n, p) in [("repo-blz", "resources/blz_service/blz.wsdl"), ("repo-weather", "resources/weather/weather.wsdl")] {
        if let Some(b) = rd(&repo.join(p)) {
            let fname = Path::new(p).file_name().unwrap().to_string_lossy().to_string();
            v.push(InputSet { name: n.into(), stage: Some("repo-rejected-input"), files: vec![(fname.clone(), b)], start: fname });
        }
    }
    v
}
