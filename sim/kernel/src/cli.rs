//! Running the real `zeep` binary on the simulated OS boundary (libverifsim.so + plan file).

use std::path::{Path, PathBuf};
use std::process::{Command, Stdio};
use std::time::{Duration, Instant};

#[derive(Clone, Debug, PartialEq)]
pub enum FaultAction {
    Errno(i32),
    Short(u64),
}

#[derive(Clone, Debug, PartialEq)]
pub struct FaultSpec {
    pub sym: &'static str,
    pub cls: &'static str,
    pub idx: u64,
    pub action: FaultAction,
}

impl FaultSpec {
    pub fn describe(&self) -> String {
        match &self.action {
            FaultAction::Errno(e) => format!("{}({})#{} -> errno {}", self.sym, self.cls, self.idx, errno_name(*e)),
            FaultAction::Short(n) => format!("{}({})#{} -> short {}", self.sym, self.cls, self.idx, n),
        }
    }
    /// Faults the standard library is documented to absorb (retry / continue): EINTR and short transfers.
    pub fn is_transient(&self) -> bool {
        match self.action {
            FaultAction::Errno(e) => e == 4 && matches!(self.sym, "open" | "read" | "write"),
            FaultAction::Short(_) => true,
        }
    }
}

pub fn errno_name(e: i32) -> &'static str {
    match e {
        2 => "ENOENT",
        4 => "EINTR",
        5 => "EIO",
        9 => "EBADF",
        13 => "EACCES",
        18 => "EXDEV",
        20 => "ENOTDIR",
        21 => "EISDIR",
        24 => "EMFILE",
        27 => "EFBIG",
        28 => "ENOSPC",
        30 => "EROFS",
        122 => "EDQUOT",
        _ => "E?",
    }
}

#[derive(Clone, Debug, Default)]
pub struct PlanSpec {
    pub root: PathBuf,
    pub input: PathBuf,
    pub output: PathBuf,
    pub dir: PathBuf,
    pub entropy: (u64, u64),
    pub dirperm: u64,
    pub dirorder: Vec<String>,
    pub faults: Vec<FaultSpec>,
    /// the tool's stderr is /dev/full (every write to it fails) instead of a pipe
    pub stderr_full: bool,
    /// value of RUST_LOG in the tool's environment (None: unset); the output must not depend on it
    pub rust_log: Option<&'static str>,
    /// TMPDIR of the tool (None: unset, i.e. the shared /tmp - never used by the harness: a directory shared between
    /// concurrently simulated runs is shared mutable state the simulator does not own)
    pub tmpdir: Option<PathBuf>,
    /// what the tool's clock starts from (seconds since the epoch) and what getpid() answers; 0 = the shim's defaults.
    /// Owning the clock includes varying it: output that embeds the time or the pid must differ between environments.
    pub clock_base: u64,
    pub pid: u64,
    /// further environment variables of the tool (USER, HOME, LANG, TZ, HOSTNAME ...): the harness starts the tool
    /// with an otherwise empty environment, so whatever is listed here is all it sees
    pub extra_env: Vec<(String, String)>,
}

#[derive(Clone, Debug, Default)]
pub struct CliRun {
    pub exit_code: Option<i32>,
    pub killed_by_signal: bool,
    pub timed_out: bool,
    pub stderr: String,
    /// shim trace with the scratch root replaced by <TOP>
    pub trace: Vec<String>,
}

impl CliRun {
    pub fn success(&self) -> bool {
        self.exit_code == Some(0) && !self.timed_out
    }
    pub fn injected(&self) -> Vec<&String> {
        self.trace.iter().filter(|l| l.contains("!inj")).collect()
    }
    /// true if a fault on writing/closing the output file itself fired
    pub fn output_write_fault_fired(&self) -> bool {
        self.trace.iter().any(|l| {
            l.contains("!inj")
                && [" write output", " writev output", " close output", " write outtmp", " writev outtmp", " close outtmp", " open outtmp", " rename output", " rename outtmp", " fsync output", " fsync outtmp", " ftruncate output", " ftruncate outtmp"]
                    .iter()
                    .any(|p| l.contains(p))
        })
    }
    pub fn count(&self, sym: &str, cls: &str) -> usize {
        let pat = format!(" {sym} {cls} ");
        self.trace.iter().filter(|l| l.contains(&pat)).count()
    }
}

pub fn zeep_bin() -> PathBuf {
    std::env::var_os("VERIF_ZEEP_BIN").map_or_else(|| crate::verif_root().join("target/repo/release/zeep"), PathBuf::from)
}
pub fn shim_path() -> PathBuf {
    std::env::var_os("VERIF_SHIM").map_or_else(|| crate::verif_root().join("target/shim/libverifsim.so"), PathBuf::from)
}

pub fn write_plan(plan_path: &Path, trace_path: &Path, p: &PlanSpec) -> std::io::Result<()> {
    let mut s = String::new();
    s.push_str(&format!("root {}\n", p.root.display()));
    s.push_str(&format!("input {}\n", p.input.display()));
    s.push_str(&format!("output {}\n", p.output.display()));
    s.push_str(&format!("dir {}\n", p.dir.display()));
    s.push_str(&format!("entropy {:x} {:x}\n", p.entropy.0, p.entropy.1));
    s.push_str(&format!("dirperm {}\n", p.dirperm));
    if p.clock_base != 0 {
        s.push_str(&format!("clock {}\n", p.clock_base));
    }
    if p.pid != 0 {
        s.push_str(&format!("pid {}\n", p.pid));
    }
    for n in &p.dirorder {
        s.push_str(&format!("dirorder {n}\n"));
    }
    s.push_str(&format!("trace {}\n", trace_path.display()));
    for f in &p.faults {
        match &f.action {
            FaultAction::Errno(e) => s.push_str(&format!("fault {} {} {} errno {}\n", f.sym, f.cls, f.idx, e)),
            FaultAction::Short(n) => s.push_str(&format!("fault {} {} {} short {}\n", f.sym, f.cls, f.idx, n)),
        }
    }
    std::fs::write(plan_path, s)
}

/// Runs the binary once. `top` is the scratch root of this run (plan and trace files are put there).
pub fn run_zeep(top: &Path, cwd: &Path, args: &[String], plan: &PlanSpec, tag: &str) -> CliRun {
    let plan_path = top.join(format!("plan-{tag}.txt"));
    let trace_path = top.join(format!("trace-{tag}.txt"));
    let _ = std::fs::remove_file(&trace_path);
    let mut out = CliRun::default();
    if let Err(e) = write_plan(&plan_path, &trace_path, plan) {
        out.stderr = format!("harness: cannot write plan: {e}");
        out.timed_out = true;
        return out;
    }
    let mut cmd = Command::new(zeep_bin());
    cmd.args(args)
        .current_dir(cwd)
        .env_clear()
        .env("PATH", "/usr/bin:/bin")
        .env("LD_PRELOAD", shim_path())
        .env("VERIFSIM_PLAN", &plan_path)
        .env("RUST_BACKTRACE", "0")
        .envs(plan.rust_log.map(|v| ("RUST_LOG", v)))
        .envs(plan.tmpdir.as_ref().map(|v| ("TMPDIR", v.as_os_str())))
        .envs(plan.extra_env.iter().map(|(k, v)| (k.as_str(), v.as_str())))
        .stdin(Stdio::null())
        .stdout(Stdio::null());
    match (plan.stderr_full, std::fs::OpenOptions::new().write(true).open("/dev/full")) {
        (true, Ok(f)) => {
            cmd.stderr(Stdio::from(f));
        }
        _ => {
            cmd.stderr(Stdio::piped());
        }
    }
    let mut child = match cmd.spawn() {
        Ok(c) => c,
        Err(e) => {
            out.stderr = format!("harness: cannot spawn zeep: {e}");
            out.timed_out = true;
            return out;
        }
    };
    // hang detection only; the limit is far above any legitimate run (a run takes milliseconds)
    let deadline = Instant::now() + Duration::from_secs(120);
    let status = loop {
        match child.try_wait() {
            Ok(Some(st)) => break Some(st),
            Ok(None) => {
                if Instant::now() > deadline {
                    let _ = child.kill();
                    let _ = child.wait();
                    out.timed_out = true;
                    break None;
                }
                std::thread::sleep(Duration::from_micros(300));
            }
            Err(_) => break None,
        }
    };
    if let Some(mut e) = child.stderr.take() {
        use std::io::Read;
        let mut s = String::new();
        let _ = e.read_to_string(&mut s);
        s.truncate(600);
        out.stderr = s;
    }
    if let Some(st) = status {
        out.exit_code = st.code();
        out.killed_by_signal = st.code().is_none();
    }
    let top_s = top.to_string_lossy().to_string();
    if let Ok(t) = std::fs::read_to_string(&trace_path) {
        out.trace = t.lines().map(|l| l.replace(&top_s, "<TOP>")).collect();
    }
    out
}

/// A scratch directory that is removed when dropped.
pub struct Scratch {
    pub path: PathBuf,
}
impl Scratch {
    pub fn new(tag: &str) -> Self {
        use std::sync::atomic::{AtomicU64, Ordering};
        static N: AtomicU64 = AtomicU64::new(0);
        let n = N.fetch_add(1, Ordering::Relaxed);
        let path = crate::scratch_root().join(format!("{tag}-{}-{n}", std::process::id()));
        let _ = std::fs::remove_dir_all(&path);
        let _ = std::fs::create_dir_all(&path);
        Scratch { path }
    }
}
impl Drop for Scratch {
    fn drop(&mut self) {
        let _ = std::fs::remove_dir_all(&self.path);
    }
}
