//! Profile generator for WSDL/XSD file sets (DESIGN.md section 2, "simulation profile"): tame names, but it varies
//! what the claimed properties depend on – number of operations, parts per message, `parts=` present or absent,
//! header parts, soapAction, number of files in an import DAG, documentation, facets, restricted types at depth.

use crate::inputs::InputSet;
use crate::Chooser;
use std::fmt::Write as _;

const NS_WORDS: [&str; 4] = ["alpha", "bravo", "charlie", "delta"];
const OP_WORDS: [&str; 10] = ["Create", "Lookup", "Remove", "Update", "Verify", "Submit", "Report", "Assign", "Export", "Import"];
const FIELD_WORDS: [&str; 10] = ["code", "label", "amount", "owner", "region", "batch", "serial", "title", "grade", "phase"];
const BUILTINS: [&str; 8] = ["xs:string", "xs:int", "xs:long", "xs:boolean", "xs:double", "xs:unsignedShort", "xs:dateTime", "xs:short"];

#[derive(Clone, Debug)]
pub struct GenOp {
    pub name: String,
    pub has_header: bool,
    pub parts_attr: bool,
    pub n_parts: usize,
}

#[derive(Clone, Debug)]
pub struct GenMeta {
    pub ops: Vec<GenOp>,
    pub n_files: usize,
    pub location: String,
    /// instance documents per WSDL operation name: {"request", "response", "mutations": [{name, position, find, replace}]}
    pub instances: serde_json::Value,
}

/// (valid text, facet-violating text) for the facet kinds of `simple_type`
fn facet_values(kind: u64) -> (&'static str, &'static str) {
    match kind % 6 {
        0 => ("abcd", "a"),
        1 => ("abcd", "abcde"),
        2 => ("north", "west"),
        3 => ("5", "900"),
        4 => ("0", "77"),
        _ => ("abc", "abcdefghij"),
    }
}

fn builtin_sample(ty: &str) -> &'static str {
    match ty {
        "xs:string" => "some text",
        "xs:int" => "7",
        "xs:long" => "7000000000",
        "xs:boolean" => "true",
        "xs:double" => "1.5",
        "xs:unsignedShort" => "3",
        "xs:dateTime" => "2020-01-01T00:00:00",
        _ => "2",
    }
}

fn simple_type(out: &mut String, prefix: &str, name: &str, kind: u64, doc: bool) {
    let _ = writeln!(out, "      <xs:simpleType name=\"{name}\">");
    if doc {
        let _ = writeln!(out, "        <xs:annotation><xs:documentation>Restricted value {name}\nsecond line of {prefix}</xs:documentation></xs:annotation>");
    }
    match kind % 6 {
        0 => {
            let _ = writeln!(out, "        <xs:restriction base=\"xs:string\"><xs:minLength value=\"2\"/><xs:maxLength value=\"9\"/></xs:restriction>");
        }
        1 => {
            let _ = writeln!(out, "        <xs:restriction base=\"xs:string\"><xs:length value=\"4\"/></xs:restriction>");
        }
        2 => {
            let _ = writeln!(out, "        <xs:restriction base=\"xs:string\"><xs:enumeration value=\"north\"/><xs:enumeration value=\"south\"/><xs:enumeration value=\"east\"/></xs:restriction>");
        }
        3 => {
            let _ = writeln!(out, "        <xs:restriction base=\"xs:int\"><xs:minInclusive value=\"0\"/><xs:maxInclusive value=\"500\"/></xs:restriction>");
        }
        4 => {
            let _ = writeln!(out, "        <xs:restriction base=\"xs:int\"><xs:minExclusive value=\"-5\"/><xs:maxExclusive value=\"5\"/></xs:restriction>");
        }
        _ => {
            let _ = writeln!(out, "        <xs:restriction base=\"xs:string\"><xs:maxLength value=\"6\"/></xs:restriction>");
        }
    }
    let _ = writeln!(out, "      </xs:simpleType>");
}

/// Generates one file set. All choices come from `ch`; all-zero choices give the smallest set
/// (one file, one operation, one part, `parts=` present, no header).
pub fn gen_wsdl_set(ch: &mut Chooser, tag: u64) -> (InputSet, GenMeta) {
    gen_wsdl_set_opt(ch, tag, false)
}

/// NET profile: tame, and a message with header parts always names its body part (`parts=`), so that the emitted
/// body is the request element the instance documents are written for.
pub fn gen_wsdl_set_net(ch: &mut Chooser, tag: u64) -> (InputSet, GenMeta) {
    NET_MODE.with(|m| m.set(true));
    let r = gen_wsdl_set_opt(ch, tag, false);
    NET_MODE.with(|m| m.set(false));
    r
}

thread_local! {
    static NET_MODE: std::cell::Cell<bool> = const { std::cell::Cell::new(false) };
}

/// Namespace URL for word `w`: in the tame profile always the same; in the wild profile one of several URLs that
/// all abbreviate to the same three letters, so that the same URL gets different abbreviations in different sets.
fn ns_url(ch: &mut Chooser, w: &str, wild: bool) -> String {
    if !wild {
        return format!("http://example.com/gen/{w}");
    }
    match ch.choose("gen_ns_variant", 3) {
        0 => format!("http://example.com/gen/{w}"),
        1 => format!("http://example.com/v2/{w}"),
        _ => format!("http://example.org/svc/other-{w}"),
    }
}

/// `wild` (DET only, never compiled): abbreviation collisions between namespaces, imports without
/// schemaLocation, and extra siblings that declare an already used targetNamespace.
pub fn gen_wsdl_set_opt(ch: &mut Chooser, tag: u64, wild: bool) -> (InputSet, GenMeta) {
    let n_files = 1 + ch.choose("gen_files", 4) as usize; // wsdl + up to 3 xsd
    let n_ops = 1 + ch.choose("gen_ops", 8) as usize;
    // in the wild profile the WSDL's own namespace may collide (in abbreviation) with an imported one
    let tns_word = if wild && ch.choose("gen_tns_collides", 3) == 2 && n_files > 1 { NS_WORDS[1] } else { NS_WORDS[0] };
    let tns = if wild && tns_word == NS_WORDS[1] { format!("http://example.com/main/{tns_word}") } else { ns_url(ch, tns_word, wild) };
    let mut files: Vec<(String, Vec<u8>)> = Vec::new();

    // imported schemas t1..t3: a chain or a fan (DAG), each with one complex and one restricted simple type
    let fan = ch.choose("gen_dag_shape", 2) == 1;
    let mut xsd_ns = Vec::new();
    for i in 1..n_files {
        xsd_ns.push(ns_url(ch, NS_WORDS[i], wild));
    }
    let mut xsd_kind = vec![0u64; n_files];
    for i in 1..n_files {
        let ns = &xsd_ns[i - 1];
        let p = &NS_WORDS[i][..1];
        let mut s = String::new();
        let _ = writeln!(s, "<?xml version=\"1.0\" encoding=\"UTF-8\"?>");
        let _ = write!(s, "<xs:schema xmlns:xs=\"http://www.w3.org/2001/XMLSchema\" xmlns:{p}=\"{ns}\"");
        let imports_next = !fan && i + 1 < n_files;
        if imports_next {
            let _ = write!(s, " xmlns:{}=\"{}\"", &NS_WORDS[i + 1][..1], xsd_ns[i]);
        }
        let _ = writeln!(s, " elementFormDefault=\"qualified\" targetNamespace=\"{ns}\">");
        if imports_next {
            let _ = writeln!(s, "  <xs:import namespace=\"{}\" schemaLocation=\"t{}.xsd\"/>", xsd_ns[i], i + 1);
        }
        let cap = {
            let mut c = NS_WORDS[i].to_string();
            c[..1].make_ascii_uppercase();
            c
        };
        xsd_kind[i] = ch.choose("gen_facet", 6);
        simple_type(&mut s, p, &format!("{cap}Code"), xsd_kind[i], ch.choose("gen_doc", 2) == 1);
        let _ = writeln!(s, "      <xs:complexType name=\"{cap}Info\">");
        let _ = writeln!(s, "        <xs:sequence>");
        let _ = writeln!(s, "          <xs:element name=\"{}\" type=\"{p}:{cap}Code\"/>", FIELD_WORDS[i]);
        let _ = writeln!(s, "          <xs:element name=\"{}\" type=\"xs:string\" minOccurs=\"0\"/>", FIELD_WORDS[i + 4]);
        if imports_next {
            let np = &NS_WORDS[i + 1][..1];
            let mut ncap = NS_WORDS[i + 1].to_string();
            ncap[..1].make_ascii_uppercase();
            let _ = writeln!(s, "          <xs:element name=\"next\" type=\"{np}:{ncap}Info\" minOccurs=\"0\" maxOccurs=\"unbounded\"/>");
        }
        let _ = writeln!(s, "        </xs:sequence>");
        let _ = writeln!(s, "      </xs:complexType>");
        let _ = writeln!(s, "</xs:schema>");
        files.push((format!("t{i}.xsd"), s.into_bytes()));
    }

    // the WSDL
    let mut w = String::new();
    let _ = writeln!(w, "<?xml version=\"1.0\" encoding=\"UTF-8\"?>");
    let _ = write!(w, "<wsdl:definitions xmlns:wsdl=\"http://schemas.xmlsoap.org/wsdl/\" xmlns:soap=\"http://schemas.xmlsoap.org/wsdl/soap/\" xmlns:xs=\"http://www.w3.org/2001/XMLSchema\" xmlns:tns=\"{tns}\"");
    for i in 1..n_files {
        let _ = write!(w, " xmlns:{}=\"{}\"", &NS_WORDS[i][..1], xsd_ns[i - 1]);
    }
    let _ = writeln!(w, " name=\"Gen{tag}\" targetNamespace=\"{tns}\">");
    let _ = writeln!(w, "  <wsdl:types>");
    let _ = write!(w, "    <xs:schema xmlns:xs=\"http://www.w3.org/2001/XMLSchema\" xmlns:tns=\"{tns}\"");
    for i in 1..n_files {
        let _ = write!(w, " xmlns:{}=\"{}\"", &NS_WORDS[i][..1], xsd_ns[i - 1]);
    }
    let _ = writeln!(w, " elementFormDefault=\"qualified\" targetNamespace=\"{tns}\">");
    // wild: the location may be written as a path or URL that names no registered file literally (HEAD rejects the
    // set with ImportNotFound - the *same* error in every environment), next to siblings with near-miss names:
    // a name that is a suffix of another (`1.xsd` / `t1.xsd`) and a name that differs only by case (`T1.xsd`)
    let loc_prefix = if wild { ["", "", "./", "schemas/", "http://example.com/schemas/"][ch.choose("gen_location_style", 5) as usize] } else { "" };
    for i in 1..n_files {
        if fan || i == 1 {
            let _ = writeln!(w, "      <xs:import namespace=\"{}\" schemaLocation=\"{loc_prefix}t{i}.xsd\"/>", xsd_ns[i - 1]);
        }
    }
    if wild && n_files > 1 {
        let near = ch.choose("gen_near_miss_names", 4);
        let other = |name: &str, ty: &str| format!("<?xml version=\"1.0\" encoding=\"UTF-8\"?>\n<xs:schema xmlns:xs=\"http://www.w3.org/2001/XMLSchema\" xmlns:n=\"http://example.com/gen/nearmiss\" elementFormDefault=\"qualified\" targetNamespace=\"http://example.com/gen/nearmiss\">\n  <xs:complexType name=\"{ty}\"><xs:sequence><xs:element name=\"{name}\" type=\"xs:string\"/></xs:sequence></xs:complexType>\n</xs:schema>\n");
        if near & 1 == 1 {
            files.push(("1.xsd".to_string(), other("suffix", "SuffixNamed").into_bytes()));
        }
        if near & 2 == 2 {
            files.push(("T1.xsd".to_string(), other("upper", "UpperNamed").into_bytes()));
        }
    }
    if wild && n_files > 1 && ch.choose("gen_import_without_location", 2) == 1 {
        // an import that names no file, and two siblings that both declare that namespace
        let k = 1 + ch.choose("gen_shadowed", (n_files - 1) as u64) as usize;
        let _ = writeln!(w, "      <xs:import namespace=\"{}\"/>", xsd_ns[k - 1]);
        let p = &NS_WORDS[k][..1];
        let mut cap = NS_WORDS[k].to_string();
        cap[..1].make_ascii_uppercase();
        for (fname, extra) in [("s1.xsd", "ShadowOne"), ("s2.xsd", "ShadowTwo")] {
            let sx = format!("<?xml version=\"1.0\" encoding=\"UTF-8\"?>\n<xs:schema xmlns:xs=\"http://www.w3.org/2001/XMLSchema\" xmlns:{p}=\"{ns}\" elementFormDefault=\"qualified\" targetNamespace=\"{ns}\">\n  <xs:complexType name=\"{cap}{extra}\"><xs:sequence><xs:element name=\"shadow\" type=\"xs:string\"/></xs:sequence></xs:complexType>\n</xs:schema>\n", ns = xsd_ns[k - 1]);
            files.push((fname.to_string(), sx.into_bytes()));
        }
    }
    if wild && ch.choose("gen_repeated_member_names", 2) == 1 {
        // structural oddities that are legal input for the generator: a sequence naming the same element twice, and
        // an extension that re-declares an inherited element before adding its own
        let _ = writeln!(w, "      <xs:complexType name=\"RepeatType\"><xs:sequence><xs:element name=\"alpha\" type=\"xs:string\"/><xs:element name=\"beta\" type=\"xs:int\"/><xs:element name=\"alpha\" type=\"xs:string\" minOccurs=\"0\"/><xs:element name=\"gamma\" type=\"xs:string\"/><xs:element name=\"delta\" type=\"xs:long\"/></xs:sequence></xs:complexType>");
        let _ = writeln!(w, "      <xs:complexType name=\"BaseRepeat\"><xs:sequence><xs:element name=\"id\" type=\"xs:string\"/><xs:element name=\"kind\" type=\"xs:string\"/></xs:sequence></xs:complexType>");
        let _ = writeln!(w, "      <xs:complexType name=\"ExtRepeat\"><xs:complexContent><xs:extension base=\"tns:BaseRepeat\"><xs:sequence><xs:element name=\"id\" type=\"xs:string\"/><xs:element name=\"segment\" type=\"xs:string\"/><xs:element name=\"tier\" type=\"xs:int\"/></xs:sequence></xs:extension></xs:complexContent></xs:complexType>");
    }
    let token_kind = ch.choose("gen_facet", 6);
    simple_type(&mut w, "tns", "TokenCode", token_kind, ch.choose("gen_doc", 2) == 1);
    simple_type(&mut w, "tns", "RegionCode", 2, false);
    let _ = writeln!(w, "      <xs:element name=\"Session\"><xs:complexType><xs:sequence><xs:element name=\"token\" type=\"tns:TokenCode\"/></xs:sequence></xs:complexType></xs:element>");
    let _ = writeln!(w, "      <xs:element name=\"Routing\"><xs:complexType><xs:sequence><xs:element name=\"region\" type=\"tns:RegionCode\" minOccurs=\"0\"/></xs:sequence></xs:complexType></xs:element>");
    let _ = writeln!(w, "      <xs:element name=\"Audit\"><xs:complexType><xs:sequence><xs:element name=\"actor\" type=\"xs:string\"/></xs:sequence></xs:complexType></xs:element>");

    let net_mode = NET_MODE.with(std::cell::Cell::get);
    let mut instances = serde_json::Map::new();
    let mut env_open = format!("<soapenv:Envelope xmlns:soapenv=\"http://schemas.xmlsoap.org/soap/envelope/\" xmlns:tns=\"{tns}\"");
    for i in 1..n_files {
        let _ = write!(env_open, " xmlns:{}=\"{}\"", &NS_WORDS[i][..1], xsd_ns[i - 1]);
    }
    env_open.push('>');
    // value of the imported complex type i (and, in a chain, its `next`): (xml, [(find-suffix, replace-suffix, depth)])
    let info_value = |i: usize, bad: bool| -> String {
        let p = &NS_WORDS[i][..1];
        let (ok, no) = facet_values(xsd_kind[i]);
        let mut v = format!("<{p}:{}>{}</{p}:{}>", FIELD_WORDS[i], if bad { no } else { ok }, FIELD_WORDS[i]);
        if !fan && i + 1 < n_files {
            let q = &NS_WORDS[i + 1][..1];
            let (ok2, _) = facet_values(xsd_kind[i + 1]);
            let _ = write!(v, "<{p}:next><{q}:{}>{ok2}</{q}:{}></{p}:next>", FIELD_WORDS[i + 1], FIELD_WORDS[i + 1]);
        }
        v
    };
    let mut ops = Vec::new();
    let mut messages = String::new();
    let mut port = String::new();
    let mut binding = String::new();
    for o in 0..n_ops {
        let name = format!("{}{}", OP_WORDS[o % OP_WORDS.len()], if o >= OP_WORDS.len() { "Again" } else { "" });
        let n_fields = 1 + ch.choose("gen_fields", 3) as usize;
        let n_headers = ch.choose("gen_headers", 4) as usize; // 0..3
        let parts_attr = ch.choose("gen_parts_attr_absent", 2) == 0 || (net_mode && n_headers > 0);
        let action = ch.choose("gen_soap_action", 2) == 1;
        let doc = ch.choose("gen_doc", 2) == 1;
        // request element
        let _ = writeln!(w, "      <xs:element name=\"{name}Request\">");
        let _ = writeln!(w, "        <xs:complexType>");
        if doc {
            let _ = writeln!(w, "          <xs:annotation><xs:documentation>Request of {name}\nline two\nline three</xs:documentation></xs:annotation>");
        }
        let _ = writeln!(w, "          <xs:sequence>");
        let mut req_body = String::new();
        let mut mutations: Vec<serde_json::Value> = Vec::new();
        for f in 0..n_fields {
            let fname = FIELD_WORDS[(o + f * 3) % FIELD_WORDS.len()];
            let t = ch.choose("gen_field_type", 12);
            let ty = if t < 8 {
                BUILTINS[t as usize].to_string()
            } else if t == 8 {
                "tns:TokenCode".to_string()
            } else if t == 9 {
                "tns:RegionCode".to_string()
            } else if n_files > 1 {
                let i = 1 + ((t as usize + o) % (n_files - 1));
                let mut cap = NS_WORDS[i].to_string();
                cap[..1].make_ascii_uppercase();
                format!("{}:{cap}Info", &NS_WORDS[i][..1])
            } else {
                "xs:string".to_string()
            };
            let occ = match ch.choose("gen_occurs", 3) {
                0 => "",
                1 => " minOccurs=\"0\"",
                _ => " minOccurs=\"0\" maxOccurs=\"unbounded\"",
            };
            let _ = writeln!(w, "            <xs:element name=\"{fname}{f}\" type=\"{ty}\"{occ}/>");
            // instance text for this member (two elements when it is repeated)
            let tag = format!("tns:{fname}{f}");
            let occ_label = if occ.is_empty() { "" } else if occ.contains("unbounded") { "/vec[0]" } else { "/option" };
            let (good, bad, depth): (String, Option<String>, usize) = if ty == "tns:TokenCode" {
                let (a, b) = facet_values(token_kind);
                // numeric facets: alternate between an out-of-range number and text that is not a number at all
                let b = if matches!(token_kind % 6, 3 | 4) && f % 2 == 1 { "12x" } else { b };
                (a.to_string(), Some(b.to_string()), 1)
            } else if ty == "tns:RegionCode" {
                ("north".to_string(), Some("west".to_string()), 1)
            } else if ty.ends_with("Info") {
                let i = NS_WORDS.iter().position(|w2| w2[..1] == ty[..1]).unwrap_or(1);
                (info_value(i, false), Some(info_value(i, true)), 2)
            } else {
                (builtin_sample(&ty).to_string(), None, 1)
            };
            let one = format!("<{tag}>{good}</{tag}>");
            req_body.push_str(&one);
            if occ.contains("unbounded") {
                req_body.push_str(&one);
            }
            if let Some(b) = bad {
                mutations.push(serde_json::json!({"name": format!("{fname}{f} violates its facet"), "position": format!("body/depth{depth}{occ_label}"), "find": one, "replace": format!("<{tag}>{b}</{tag}>")}));
                if occ.contains("unbounded") {
                    // a large request: 80 more valid elements and the violating one at the very end
                    let many = one.repeat(2500);
                    mutations.push(serde_json::json!({"name": format!("{fname}{f}: 2500 more elements (> 64 KiB), the last one violating"), "position": format!("body/depth{depth}/vec[2501]/large-request"), "find": one, "replace": format!("{one}{many}<{tag}>{b}</{tag}>")}));
                }
            }
        }
        let _ = writeln!(w, "          </xs:sequence>");
        let _ = writeln!(w, "        </xs:complexType>");
        let _ = writeln!(w, "      </xs:element>");
        let _ = writeln!(w, "      <xs:element name=\"{name}Response\"><xs:complexType><xs:sequence><xs:element name=\"result\" type=\"xs:string\"/><xs:element name=\"count\" type=\"xs:int\" minOccurs=\"0\"/></xs:sequence></xs:complexType></xs:element>");
        // messages: body part first or last, plus header parts
        let hdr_names = ["session", "routing", "audit"];
        let hdr_elems = ["Session", "Routing", "Audit"];
        let body_first = ch.choose("gen_body_part_last", 2) == 0;
        let _ = writeln!(messages, "  <wsdl:message name=\"{name}In\">");
        if body_first {
            let _ = writeln!(messages, "    <wsdl:part name=\"parameters\" element=\"tns:{name}Request\"/>");
        }
        for h in 0..n_headers {
            let _ = writeln!(messages, "    <wsdl:part name=\"{}\" element=\"tns:{}\"/>", hdr_names[h], hdr_elems[h]);
        }
        if !body_first {
            let _ = writeln!(messages, "    <wsdl:part name=\"parameters\" element=\"tns:{name}Request\"/>");
        }
        let _ = writeln!(messages, "  </wsdl:message>");
        let _ = writeln!(messages, "  <wsdl:message name=\"{name}Out\">");
        let _ = writeln!(messages, "    <wsdl:part name=\"parameters\" element=\"tns:{name}Response\"/>");
        let _ = writeln!(messages, "  </wsdl:message>");
        let _ = writeln!(port, "    <wsdl:operation name=\"{name}\"><wsdl:input message=\"tns:{name}In\"/><wsdl:output message=\"tns:{name}Out\"/></wsdl:operation>");
        let _ = writeln!(binding, "    <wsdl:operation name=\"{name}\">");
        let _ = writeln!(binding, "      <soap:operation soapAction=\"{}\"/>", if action { format!("http://example.com/gen/action/{name}") } else { String::new() });
        let _ = writeln!(binding, "      <wsdl:input>");
        for h in 0..n_headers {
            let _ = writeln!(binding, "        <soap:header message=\"tns:{name}In\" part=\"{}\" use=\"literal\"/>", hdr_names[h]);
        }
        let _ = writeln!(binding, "        <soap:body use=\"literal\"{}/>", if parts_attr { " parts=\"parameters\"" } else { "" });
        let _ = writeln!(binding, "      </wsdl:input>");
        let _ = writeln!(binding, "      <wsdl:output><soap:body use=\"literal\"/></wsdl:output>");
        let _ = writeln!(binding, "    </wsdl:operation>");
        // instance documents (element names are those of the schema; header elements carry the part name)
        let (tok_ok, tok_bad) = facet_values(token_kind);
        let hdr_xml = [format!("<tns:session><tns:token>{tok_ok}</tns:token></tns:session>"), "<tns:routing><tns:region>north</tns:region></tns:routing>".to_string(), "<tns:audit><tns:actor>me</tns:actor></tns:audit>".to_string()];
        let mut header = String::new();
        for h in hdr_xml.iter().take(n_headers) {
            header.push_str(h);
        }
        if n_headers > 0 {
            mutations.push(serde_json::json!({"name": "session token violates its facet", "position": "header/depth2", "find": format!("<tns:token>{tok_ok}</tns:token>"), "replace": format!("<tns:token>{tok_bad}</tns:token>")}));
        }
        if n_headers > 1 {
            mutations.push(serde_json::json!({"name": "routing region not enumerated", "position": "header/depth2/option", "find": "<tns:region>north</tns:region>", "replace": "<tns:region>west</tns:region>"}));
        }
        let hdr = if n_headers > 0 { format!("<soapenv:Header>{header}</soapenv:Header>") } else { String::new() };
        let request = format!("<?xml version=\"1.0\" encoding=\"UTF-8\"?>{env_open}{hdr}<soapenv:Body><tns:{name}Request>{req_body}</tns:{name}Request></soapenv:Body></soapenv:Envelope>");
        let response = format!("<?xml version=\"1.0\" encoding=\"UTF-8\"?>{env_open}<soapenv:Body><tns:{name}Response><tns:result>done {o} \u{fc}\u{f6}\u{e4} \u{4f60}\u{597d}\u{4e16}\u{754c} \u{20ac}\u{20ac} \u{43f}\u{440}\u{438}\u{43d}\u{44f}\u{442}\u{43e}</tns:result><tns:count>{}</tns:count></tns:{name}Response></soapenv:Body></soapenv:Envelope>", o + 3);
        mutations.truncate(10);
        instances.insert(name.clone(), serde_json::json!({"request": request, "response": response, "mutations": mutations}));
        ops.push(GenOp { name, has_header: n_headers > 0, parts_attr, n_parts: 1 + n_headers });
    }
    let _ = writeln!(w, "    </xs:schema>");
    let _ = writeln!(w, "  </wsdl:types>");
    w.push_str(&messages);
    let _ = writeln!(w, "  <wsdl:portType name=\"GenPort\">");
    w.push_str(&port);
    let _ = writeln!(w, "  </wsdl:portType>");
    let _ = writeln!(w, "  <wsdl:binding name=\"GenBinding\" type=\"tns:GenPort\">");
    let _ = writeln!(w, "    <soap:binding style=\"document\" transport=\"http://schemas.xmlsoap.org/soap/http\"/>");
    w.push_str(&binding);
    let _ = writeln!(w, "  </wsdl:binding>");
    let location = format!("http://gen{tag}.example.com:8080/ws/gen");
    let _ = writeln!(w, "  <wsdl:service name=\"GenService\"><wsdl:port name=\"GenPort\" binding=\"tns:GenBinding\"><soap:address location=\"{location}\"/></wsdl:port></wsdl:service>");
    let _ = writeln!(w, "</wsdl:definitions>");
    files.insert(0, ("gen.wsdl".to_string(), w.into_bytes()));
    (
        InputSet { name: format!("generated-{tag}"), stage: None, files, start: "gen.wsdl".into() },
        GenMeta { ops, n_files, location, instances: serde_json::Value::Object(instances) },
    )
}
