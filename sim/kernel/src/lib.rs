//! Simulation kernel shared by all engines: one PRNG, the choice tape (= replay), tape shrinking,
//! evidence and replay files, known-findings handling, and the binding to the `libverifsim.so` shim.
//!
//! Rules (DESIGN.md section 3): every decision of a run goes through `Chooser::choose`; value 0 is the
//! simplest alternative; logging never draws a choice and never reads a clock.

pub use serde_json;
pub mod cli;
pub mod inputs;
pub mod gen;
use serde_json::{json, Value};
use std::collections::{BTreeMap, BTreeSet};
use std::path::{Path, PathBuf};

pub const DEFAULT_SEED: u64 = 20_261_003;

pub fn verif_seed() -> u64 {
    match std::env::var("VERIF_SEED") {
        Ok(s) => s.trim().parse::<u64>().unwrap_or_else(|_| {
            // any text is accepted: hash it
            let mut h = 0xcbf2_9ce4_8422_2325u64;
            for b in s.bytes() {
                h ^= u64::from(b);
                h = h.wrapping_mul(0x0000_0100_0000_01b3);
            }
            h
        }),
        Err(_) => DEFAULT_SEED,
    }
}

pub fn workers() -> usize {
    std::env::var("VERIF_WORKERS")
        .ok()
        .and_then(|s| s.parse().ok())
        .unwrap_or_else(|| std::thread::available_parallelism().map_or(4, usize::from))
        .max(1)
}

// ------------------------------------------------------------------------------------------------
// PRNG

#[derive(Clone, Debug)]
pub struct Rng {
    s: [u64; 4],
}

pub fn splitmix64(x: &mut u64) -> u64 {
    *x = x.wrapping_add(0x9e37_79b9_7f4a_7c15);
    let mut z = *x;
    z = (z ^ (z >> 30)).wrapping_mul(0xbf58_476d_1ce4_e5b9);
    z = (z ^ (z >> 27)).wrapping_mul(0x94d0_49bb_1331_11eb);
    z ^ (z >> 31)
}

pub fn fnv(s: &str) -> u64 {
    let mut h = 0xcbf2_9ce4_8422_2325u64;
    for b in s.bytes() {
        h ^= u64::from(b);
        h = h.wrapping_mul(0x0000_0100_0000_01b3);
    }
    h
}

pub fn hash_bytes(b: &[u8]) -> u64 {
    let mut h = 0xcbf2_9ce4_8422_2325u64;
    for x in b {
        h ^= u64::from(*x);
        h = h.wrapping_mul(0x0000_0100_0000_01b3);
    }
    // final avalanche
    let mut t = h;
    splitmix64(&mut t)
}

impl Rng {
    pub fn new(seed: u64) -> Self {
        let mut x = seed;
        let s = [splitmix64(&mut x), splitmix64(&mut x), splitmix64(&mut x), splitmix64(&mut x)];
        Rng { s }
    }
    /// Independent sub-stream for (seed, engine, run): runs do not depend on worker count or on each other.
    pub fn derive(seed: u64, engine: &str, run: u64) -> Self {
        let mut x = seed ^ fnv(engine).rotate_left(17) ^ run.wrapping_mul(0x9e37_79b9_7f4a_7c15);
        let a = splitmix64(&mut x);
        Rng::new(a ^ run)
    }
    pub fn next_u64(&mut self) -> u64 {
        let r = self.s[1].wrapping_mul(5).rotate_left(7).wrapping_mul(9);
        let t = self.s[1] << 17;
        self.s[2] ^= self.s[0];
        self.s[3] ^= self.s[1];
        self.s[1] ^= self.s[2];
        self.s[0] ^= self.s[3];
        self.s[2] ^= t;
        self.s[3] = self.s[3].rotate_left(45);
        r
    }
    pub fn below(&mut self, n: u64) -> u64 {
        if n <= 1 {
            0
        } else {
            // multiply-shift: unbiased enough for scheduling choices, and deterministic
            ((u128::from(self.next_u64()) * u128::from(n)) >> 64) as u64
        }
    }
}

// ------------------------------------------------------------------------------------------------
// Chooser / tape

#[derive(Clone, Debug, PartialEq)]
pub struct Choice {
    pub label: &'static str,
    pub n: u64,
    pub v: u64,
}

enum Mode {
    Explore(Rng),
    Replay { values: Vec<u64>, pos: usize },
}

/// The only source of decisions in a run. In explore mode it draws from the PRNG; in replay mode it reads the
/// given values (clamped into range, 0 when the tape is exhausted – so any shrunk tape is a valid run).
pub struct Chooser {
    mode: Mode,
    pub tape: Vec<Choice>,
}

impl Chooser {
    pub fn explore(rng: Rng) -> Self {
        Chooser { mode: Mode::Explore(rng), tape: Vec::new() }
    }
    pub fn replay(values: Vec<u64>) -> Self {
        Chooser { mode: Mode::Replay { values, pos: 0 }, tape: Vec::new() }
    }
    /// Returns a value in 0..n (n = 0 is treated as 1). `n == u64::MAX` means "full 64-bit value".
    pub fn choose(&mut self, label: &'static str, n: u64) -> u64 {
        let n1 = n.max(1);
        let v = match &mut self.mode {
            Mode::Explore(rng) => {
                if n == u64::MAX {
                    rng.next_u64()
                } else {
                    rng.below(n1)
                }
            }
            Mode::Replay { values, pos } => {
                let raw = values.get(*pos).copied().unwrap_or(0);
                *pos += 1;
                if n == u64::MAX {
                    raw
                } else if raw >= n1 {
                    n1 - 1
                } else {
                    raw
                }
            }
        };
        self.tape.push(Choice { label, n, v });
        v
    }
    /// A dimension whose upper values only enumerated cases use: exploration draws below `n_explore` (so the seeded
    /// mixes of earlier versions stay exactly what they were), replay accepts values below `n_total`.
    pub fn choose_wide(&mut self, label: &'static str, n_explore: u64, n_total: u64) -> u64 {
        let n = if matches!(self.mode, Mode::Explore(_)) { n_explore } else { n_total };
        self.choose(label, n)
    }
    /// Biased coin: true with probability num/den; the "no" answer is value 0.
    pub fn coin(&mut self, label: &'static str, num: u64, den: u64) -> bool {
        let v = self.choose(label, den);
        // value 0 must be the simple alternative: true only for the top `num` values
        v >= den.saturating_sub(num) && num > 0
    }
    pub fn values(&self) -> Vec<u64> {
        self.tape.iter().map(|c| c.v).collect()
    }
    pub fn tape_json(&self) -> Value {
        Value::Array(
            self.tape
                .iter()
                .map(|c| json!([c.label, if c.n == u64::MAX { Value::from("u64") } else { Value::from(c.n) }, c.v]))
                .collect(),
        )
    }
    /// A permutation of 0..n drawn with n-1 choices (Fisher–Yates); all-zero choices give the identity.
    pub fn permutation(&mut self, label: &'static str, n: usize) -> Vec<usize> {
        let mut p: Vec<usize> = (0..n).collect();
        for i in 0..n.saturating_sub(1) {
            let j = i + self.choose(label, (n - i) as u64) as usize;
            p.swap(i, j);
        }
        p
    }
}

/// Extract raw values from a tape in JSON form (as written by `tape_json`) or from a plain array of numbers.
pub fn tape_values_from_json(v: &Value) -> Vec<u64> {
    v.as_array()
        .map(|a| {
            a.iter()
                .map(|e| match e {
                    Value::Array(t) => t.get(2).and_then(Value::as_u64).unwrap_or(0),
                    other => other.as_u64().unwrap_or(0),
                })
                .collect()
        })
        .unwrap_or_default()
}

// ------------------------------------------------------------------------------------------------
// Shrinking

/// Generic tape shrinking: delete spans, zero values, halve values, decrement, while `still_fails` holds.
/// `still_fails` must be a pure function of the tape. At most `budget` re-executions.
pub fn shrink_tape(start: &[u64], budget: usize, mut still_fails: impl FnMut(&[u64]) -> bool) -> (Vec<u64>, usize) {
    let mut cur = start.to_vec();
    let mut used = 0usize;
    let mut try_it = |cand: &[u64], used: &mut usize| -> bool {
        if *used >= budget {
            return false;
        }
        *used += 1;
        still_fails(cand)
    };
    // strip trailing zeros (replay pads with zeros anyway)
    while cur.last() == Some(&0) {
        cur.pop();
    }
    let mut progress = true;
    while progress && used < budget {
        progress = false;
        // delete spans
        let mut span = (cur.len() / 2).max(1);
        while span >= 1 && used < budget {
            let mut i = 0;
            while i + span <= cur.len() && used < budget {
                let mut cand = cur.clone();
                cand.drain(i..i + span);
                if try_it(&cand, &mut used) {
                    cur = cand;
                    progress = true;
                } else {
                    i += span;
                }
            }
            if span == 1 {
                break;
            }
            span /= 2;
        }
        // zero, halve, decrement single values
        for i in 0..cur.len() {
            if used >= budget {
                break;
            }
            if cur[i] == 0 {
                continue;
            }
            let mut cand = cur.clone();
            cand[i] = 0;
            if try_it(&cand, &mut used) {
                cur = cand;
                progress = true;
                continue;
            }
            loop {
                if cur[i] <= 1 || used >= budget {
                    break;
                }
                let mut cand = cur.clone();
                cand[i] = cur[i] / 2;
                if try_it(&cand, &mut used) {
                    cur = cand;
                    progress = true;
                } else {
                    break;
                }
            }
            if cur[i] > 0 && used < budget {
                let mut cand = cur.clone();
                cand[i] = cur[i] - 1;
                if try_it(&cand, &mut used) {
                    cur = cand;
                    progress = true;
                }
            }
        }
        while cur.last() == Some(&0) {
            cur.pop();
        }
    }
    (cur, used)
}

// ------------------------------------------------------------------------------------------------
// Paths

pub fn verif_root() -> PathBuf {
    std::env::var_os("VERIF_ROOT").map_or_else(|| PathBuf::from("/verif"), PathBuf::from)
}
pub fn repo_root() -> PathBuf {
    std::env::var_os("VERIF_REPO").map_or_else(|| PathBuf::from("/repo"), PathBuf::from)
}
pub fn scratch_root() -> PathBuf {
    let p = verif_root().join("target").join("scratch");
    let _ = std::fs::create_dir_all(&p);
    p
}

// ------------------------------------------------------------------------------------------------
// Violations, replay files, known findings

#[derive(Clone, Debug)]
pub struct Violation {
    pub property: String,
    pub engine: String,
    /// Class of the violation (panic / false-success / bytes-differ / ...): minimisation keeps the class.
    pub class: String,
    /// Stable identification of *what* fails (input, call site, history) – matched against known findings.
    pub key: String,
    pub detail: String,
    pub scenario: Value,
    pub tape: Value,
    pub observations: Value,
    pub trace: Value,
}

impl Violation {
    pub fn to_json(&self, seed: u64) -> Value {
        json!({
            "property": self.property,
            "engine": self.engine,
            "seed": seed,
            "violation_class": self.class,
            "key": self.key,
            "detail": self.detail,
            "scenario": self.scenario,
            "tape": self.tape,
            "expected_observations": self.observations,
            "trace": self.trace,
        })
    }
}

pub struct KnownFindings {
    pub open: Vec<(String, String, String)>, // (property, key, what)
}

impl KnownFindings {
    pub fn load() -> Self {
        let p = verif_root().join("known_findings.json");
        let mut open = Vec::new();
        if let Ok(text) = std::fs::read_to_string(&p) {
            if let Ok(v) = serde_json::from_str::<Value>(&text) {
                if let Some(a) = v.get("known_findings").and_then(Value::as_array) {
                    for f in a {
                        let g = |k: &str| f.get(k).and_then(Value::as_str).unwrap_or("").to_string();
                        open.push((g("property"), g("key"), g("what")));
                    }
                }
            }
        }
        KnownFindings { open }
    }
    pub fn matches(&self, property: &str, key: &str) -> Option<&str> {
        self.open
            .iter()
            .find(|(p, k, _)| p == property && k == key)
            .map(|(_, _, w)| w.as_str())
    }
}

/// Collects the result of a check and implements the exit protocol of the brief.
pub struct Report {
    pub property: String,
    pub engine: String,
    pub tier: String,
    pub seed: u64,
    pub level: String,
    pub start: std::time::Instant,
    pub violations: Vec<Violation>,
    pub known_hits: BTreeMap<String, String>,
    pub harness_errors: Vec<String>,
    /// failures of the harness' own self-checks that the code under test can cause (a batch that is not repeatable
    /// because the code keeps process-wide state): a harness error only if no verified violation is reported
    pub soft_errors: Vec<String>,
}

impl Report {
    pub fn new(property: &str, engine: &str, tier: &str, level: &str) -> Self {
        Report {
            property: property.to_string(),
            engine: engine.to_string(),
            tier: tier.to_string(),
            seed: verif_seed(),
            level: level.to_string(),
            start: std::time::Instant::now(),
            violations: Vec::new(),
            known_hits: BTreeMap::new(),
            harness_errors: Vec::new(),
            soft_errors: Vec::new(),
        }
    }

    /// Sort violations into known findings and new ones. Returns the new ones (deduplicated by key).
    pub fn triage(&mut self, all: Vec<Violation>) {
        let known = KnownFindings::load();
        let mut seen = BTreeSet::new();
        for v in all {
            if let Some(what) = known.matches(&v.property, &v.key) {
                self.known_hits.insert(v.key.clone(), what.to_string());
                continue;
            }
            if seen.insert(v.key.clone()) {
                self.violations.push(v);
            }
        }
    }

    pub fn write_replay(&self, v: &Violation, idx: usize) -> PathBuf {
        let dir = std::env::var_os("VERIF_REPLAYS_DIR").map_or_else(|| verif_root().join("replays"), PathBuf::from);
        let _ = std::fs::create_dir_all(&dir);
        let name = format!("{}-{}-{}-{}.json", v.property, v.engine, self.seed, idx);
        let p = dir.join(name);
        let text = serde_json::to_string_pretty(&v.to_json(self.seed)).unwrap_or_default();
        if let Err(e) = std::fs::write(&p, text) {
            eprintln!("harness: cannot write replay {}: {e}", p.display());
        }
        p
    }

    /// Writes the evidence file. `coverage` must hold the keys its level requires.
    pub fn write_evidence(&self, coverage: Value, assumptions: &[&str]) {
        let dir = std::env::var_os("VERIF_EVIDENCE_DIR").map_or_else(|| verif_root().join("evidence"), PathBuf::from);
        let _ = std::fs::create_dir_all(&dir);
        let wall = self.start.elapsed().as_secs_f64();
        let ev = json!({
            "property_id": self.property,
            "tier": self.tier,
            "seed": self.seed,
            "level": self.level,
            "coverage": coverage,
            "assumptions": assumptions,
            "wall_s": (wall * 1000.0).round() / 1000.0,
            "violations": self.violations.len(),
            "known_findings_hit": self.known_hits.keys().collect::<Vec<_>>(),
        });
        let p = dir.join(format!("{}.json", self.property));
        let text = serde_json::to_string_pretty(&ev).unwrap_or_default();
        if let Err(e) = std::fs::write(&p, text) {
            eprintln!("harness: cannot write evidence {}: {e}", p.display());
        }
    }

    /// Prints the protocol lines and returns the process exit code.
    pub fn finish(&self, replay_paths: &[PathBuf]) -> i32 {
        for (key, what) in &self.known_hits {
            println!("KNOWN-FINDING: property={} {} [{}]", self.property, what, key);
        }
        if !self.harness_errors.is_empty() {
            for e in &self.harness_errors {
                eprintln!("HARNESS-ERROR: {e}");
            }
            return 2;
        }
        if !self.soft_errors.is_empty() {
            if self.violations.is_empty() {
                for e in &self.soft_errors {
                    eprintln!("HARNESS-ERROR: {e}");
                }
                return 2;
            }
            for e in &self.soft_errors {
                println!("NOTE: {e} - together with the verified violation(s) below this points at state that the code under test keeps between runs");
            }
        }
        if self.violations.is_empty() {
            println!(
                "OK property={} engine={} tier={} seed={} wall_s={:.1}",
                self.property,
                self.engine,
                self.tier,
                self.seed,
                self.start.elapsed().as_secs_f64()
            );
            0
        } else {
            for (v, p) in self.violations.iter().zip(replay_paths) {
                println!("  class={} key={} :: {}", v.class, v.key, v.detail);
                println!("VIOLATION property={} replay={}", v.property, p.display());
            }
            1
        }
    }
}

pub fn load_replay(path: &Path) -> Result<Value, String> {
    let text = std::fs::read_to_string(path).map_err(|e| format!("cannot read {}: {e}", path.display()))?;
    serde_json::from_str(&text).map_err(|e| format!("cannot parse {}: {e}", path.display()))
}

// ------------------------------------------------------------------------------------------------
// Shim binding (libverifsim.so must be LD_PRELOADed; resolved with dlsym so that its absence is detected)

pub mod shim {
    use std::ffi::CString;

    type PlanFn = unsafe extern "C" fn(u64, u64);
    type U64Fn = unsafe extern "C" fn(u64);
    type CountFn = unsafe extern "C" fn() -> u64;

    fn sym(name: &str) -> *mut libc::c_void {
        let c = CString::new(name).unwrap();
        unsafe { libc::dlsym(libc::RTLD_DEFAULT, c.as_ptr()) }
    }

    pub fn present() -> bool {
        !sym("verifsim_thread_plan").is_null()
    }

    /// Sets the entropy that `getrandom` returns for the calling thread (a stream derived from lo/hi).
    pub fn thread_entropy(lo: u64, hi: u64) -> bool {
        let p = sym("verifsim_thread_plan");
        if p.is_null() {
            return false;
        }
        let f: PlanFn = unsafe { std::mem::transmute(p) };
        unsafe { f(lo, hi) };
        true
    }

    /// Sets the permutation seed applied to directory listings read by the calling thread (0 = sorted).
    pub fn thread_dirperm(seed: u64) -> bool {
        let p = sym("verifsim_thread_dirperm");
        if p.is_null() {
            return false;
        }
        let f: U64Fn = unsafe { std::mem::transmute(p) };
        unsafe { f(seed) };
        true
    }

    /// Number of `getrandom` calls the shim has answered in this thread.
    pub fn thread_getrandom_calls() -> u64 {
        let p = sym("verifsim_thread_getrandom_calls");
        if p.is_null() {
            return 0;
        }
        let f: CountFn = unsafe { std::mem::transmute(p) };
        unsafe { f() }
    }
}

// ------------------------------------------------------------------------------------------------
// Panic capture (thread-local), so that a panic inside the system under test is an observation, not a crash.

pub mod panics {
    use std::cell::RefCell;
    use std::sync::Once;

    thread_local! {
        static LAST: RefCell<Option<(String, String)>> = const { RefCell::new(None) };
        static DEPTH: RefCell<u32> = const { RefCell::new(0) };
    }
    static INSTALL: Once = Once::new();

    pub fn install_hook() {
        INSTALL.call_once(|| {
            let default = std::panic::take_hook();
            std::panic::set_hook(Box::new(move |info| {
                let quiet = DEPTH.with(|q| *q.borrow() > 0);
                if quiet {
                    let msg = if let Some(s) = info.payload().downcast_ref::<&str>() {
                        (*s).to_string()
                    } else if let Some(s) = info.payload().downcast_ref::<String>() {
                        s.clone()
                    } else {
                        "<non-string panic payload>".to_string()
                    };
                    let loc = info
                        .location()
                        .map(|l| format!("{}:{}", l.file(), l.line()))
                        .unwrap_or_default();
                    LAST.with(|l| *l.borrow_mut() = Some((msg, loc)));
                } else {
                    default(info);
                }
            }));
        });
    }

    /// Runs `f`, returning Err((message, location)) if it panicked. Re-entrant: an inner `catch` does not switch the
    /// capture off for the rest of an outer one.
    pub fn catch<T>(f: impl FnOnce() -> T) -> Result<T, (String, String)> {
        install_hook();
        DEPTH.with(|q| *q.borrow_mut() += 1);
        LAST.with(|l| *l.borrow_mut() = None);
        let r = std::panic::catch_unwind(std::panic::AssertUnwindSafe(f));
        DEPTH.with(|q| *q.borrow_mut() -= 1);
        match r {
            Ok(v) => Ok(v),
            Err(_) => Err(LAST
                .with(|l| l.borrow_mut().take())
                .unwrap_or_else(|| ("<panic>".to_string(), String::new()))),
        }
    }
}

/// Strip the repo prefix from a source location so that keys are stable across checkouts.
pub fn norm_loc(loc: &str) -> String {
    if let Some(i) = loc.find("zeep-lib/src/") {
        loc[i..].to_string()
    } else if let Some(i) = loc.find("zeep/src/") {
        loc[i..].to_string()
    } else {
        loc.to_string()
    }
}

pub fn parse_cli() -> (String, Option<PathBuf>, Vec<String>) {
    // <tier> [--replay file] [extra...]
    let args: Vec<String> = std::env::args().skip(1).collect();
    let mut tier = std::env::var("VERIF_TIER").unwrap_or_else(|_| "quick".to_string());
    let mut replay = None;
    let mut extra = Vec::new();
    let mut i = 0;
    while i < args.len() {
        match args[i].as_str() {
            "quick" | "thorough" => tier = args[i].clone(),
            "--replay" => {
                i += 1;
                replay = args.get(i).map(PathBuf::from);
            }
            other => extra.push(other.to_string()),
        }
        i += 1;
    }
    (tier, replay, extra)
}
