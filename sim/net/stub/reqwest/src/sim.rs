//! The simulated network, server and executor. Thread-local: every worker thread owns an independent simulation.
//!
//! Model of reqwest 0.12 the oracle relies on (calibrated against the real crate, see /verif/calibration.json):
//!  - `send()` is `Err` when the connection is refused or closed before a complete response head, otherwise a
//!    `Response` carrying the status;
//!  - `text()` is the body once all announced bytes arrived, `Err` if the connection closes earlier;
//!  - a 204 reply has an empty body whatever the script says.

use std::cell::RefCell;
use std::cmp::Reverse;
use std::collections::BinaryHeap;
use std::future::Future;
use std::pin::Pin;
use std::task::{Context, Poll, RawWaker, RawWakerVTable, Waker};

#[derive(Clone, Debug, PartialEq)]
pub enum Transport {
    Ok,
    Refused,
    ClosedBeforeHead,
    ClosedMidBody,
    /// every byte of the scripted body arrives, but the server announced more (Content-Length) and closes
    ClosedAfterBody,
}

/// What the scripted server/transport does with the next connection opened by a task.
#[derive(Clone, Debug)]
pub struct Script {
    pub status: u16,
    pub body: Vec<u8>,
    pub transport: Transport,
    /// byte offsets at which the body is split into chunks (ascending, each < body.len())
    pub splits: Vec<usize>,
    /// for ClosedMidBody: number of body bytes delivered before the close
    pub cut_at: usize,
    /// virtual microseconds: connect, head, between chunks
    pub latency: [u64; 3],
    /// false: the reply announces no Content-Length (chunked or close-delimited framing): `content_length()` is None
    /// and the end of the body is the end of the stream
    pub announce_length: bool,
    /// further response headers (name, value) as the server sends them; names compare case-insensitively
    pub headers: Vec<(String, String)>,
}

impl Default for Script {
    fn default() -> Self {
        Script { status: 200, body: Vec::new(), transport: Transport::Refused, splits: vec![], cut_at: 0, latency: [0, 0, 0], announce_length: true, headers: vec![] }
    }
}

#[derive(Clone, Debug)]
pub struct Request {
    pub method: &'static str,
    pub url: String,
    pub body: String,
    pub auth: Option<(String, Option<String>)>,
    pub headers: Vec<(String, String)>,
}

#[derive(Clone, Debug, PartialEq)]
pub enum EvKind {
    ConnectAttempt,
    /// the request was put on the wire (happens for every transport but `Refused`)
    RequestSent,
    Refused,
    HeadDelivered(u16),
    Chunk(usize),
    BodyComplete,
    Closed(&'static str),
    TaskCompleted,
    /// a task went to sleep on the virtual clock (microseconds) / its timer fired: not a transport event
    TimerSet(u64),
    TimerFired,
}

#[derive(Clone, Debug)]
pub struct Recorded {
    pub seq: u64,
    pub time_us: u64,
    pub task: usize,
    pub conn: Option<usize>,
    pub kind: EvKind,
}

pub enum HeadState {
    Pending,
    Ready(u16),
    Failed(String),
}
pub enum ChunkState {
    Pending,
    Data(Vec<u8>),
    End,
    Failed(String),
}
pub enum BodyState {
    Pending,
    Complete(Vec<u8>),
    Failed(String),
}

#[derive(Debug)]
struct Conn {
    task: usize,
    request: Request,
    head: Option<Result<u16, String>>,
    body: Vec<u8>,
    body_done: Option<Result<(), String>>,
}

#[derive(Debug, PartialEq, Eq, PartialOrd, Ord)]
enum Step {
    Refuse,
    CloseBeforeHead,
    Head(u16),
    Chunk(usize, usize),
    BodyEnd,
    CloseMidBody,
    /// queue entries of this kind carry a timer index instead of a connection index
    Timer,
}

#[derive(Default)]
struct State {
    now: u64,
    seq: u64,
    queue: BinaryHeap<Reverse<(u64, u64, usize, Step)>>,
    conns: Vec<Conn>,
    history: Vec<Recorded>,
    scripts: Vec<Script>, // per task
    current_task: usize,
    clients_created: u64,
    bodies: Vec<Vec<u8>>, // per conn: the script body
    announced: Vec<bool>, // per conn: was a Content-Length announced
    resp_headers: Vec<Vec<(String, String)>>, // per conn
    timers: Vec<(usize, bool)>, // (task, fired)
}

thread_local! {
    static SIM: RefCell<State> = RefCell::new(State::default());
}

pub fn reset(scripts: Vec<Script>) {
    SIM.with(|s| {
        let mut s = s.borrow_mut();
        *s = State::default();
        s.scripts = scripts;
    });
}

pub fn note_client_created() {
    SIM.with(|s| s.borrow_mut().clients_created += 1);
}
pub fn clients_created() -> u64 {
    SIM.with(|s| s.borrow().clients_created)
}
pub fn history() -> Vec<Recorded> {
    SIM.with(|s| s.borrow().history.clone())
}
pub fn requests() -> Vec<(usize, Request)> {
    SIM.with(|s| s.borrow().conns.iter().map(|c| (c.task, c.request.clone())).collect())
}
pub fn now_us() -> u64 {
    SIM.with(|s| s.borrow().now)
}

fn record(s: &mut State, task: usize, conn: Option<usize>, kind: EvKind) {
    s.seq += 1;
    let r = Recorded { seq: s.seq, time_us: s.now, task, conn, kind };
    s.history.push(r);
}

pub fn basic_header(user: &str, pass: Option<&str>) -> String {
    const T: &[u8; 64] = b"ABCDEFGHIJKLMNOPQRSTUVWXYZabcdefghijklmnopqrstuvwxyz0123456789+/";
    let raw = format!("{user}:{}", pass.unwrap_or(""));
    let b = raw.as_bytes();
    let mut out = String::from("Basic ");
    for c in b.chunks(3) {
        let n = (u32::from(c[0]) << 16) | (u32::from(*c.get(1).unwrap_or(&0)) << 8) | u32::from(*c.get(2).unwrap_or(&0));
        out.push(T[(n >> 18) as usize & 63] as char);
        out.push(T[(n >> 12) as usize & 63] as char);
        out.push(if c.len() > 1 { T[(n >> 6) as usize & 63] as char } else { '=' });
        out.push(if c.len() > 2 { T[n as usize & 63] as char } else { '=' });
    }
    out
}

/// Called by `send()` on its first poll: the task opens a connection and (unless refused) sends the request.
pub fn open_connection(request: Request) -> usize {
    SIM.with(|s| {
        let mut s = s.borrow_mut();
        let task = s.current_task;
        let script = s.scripts.get(task).cloned().unwrap_or_default();
        let id = s.conns.len();
        s.conns.push(Conn { task, request, head: None, body: Vec::new(), body_done: None });
        record(&mut s, task, Some(id), EvKind::ConnectAttempt);
        let mut t = s.now + script.latency[0];
        let mut push = |s: &mut State, at: u64, st: Step| {
            s.seq += 1;
            let q = s.seq;
            s.queue.push(Reverse((at, q, id, st)));
        };
        let body: Vec<u8> = if script.status == 204 { Vec::new() } else { script.body.clone() };
        match script.transport {
            Transport::Refused => push(&mut s, t, Step::Refuse),
            Transport::ClosedBeforeHead => {
                record(&mut s, task, Some(id), EvKind::RequestSent);
                push(&mut s, t + script.latency[1], Step::CloseBeforeHead);
            }
            Transport::Ok | Transport::ClosedMidBody | Transport::ClosedAfterBody => {
                record(&mut s, task, Some(id), EvKind::RequestSent);
                t += script.latency[1];
                push(&mut s, t, Step::Head(script.status));
                let limit = if script.transport == Transport::ClosedMidBody { script.cut_at.min(body.len().saturating_sub(1)) } else { body.len() };
                let mut from = 0usize;
                let mut cuts: Vec<usize> = script.splits.iter().copied().filter(|c| *c > 0 && *c < limit).collect();
                cuts.sort_unstable();
                cuts.dedup();
                cuts.push(limit);
                for c in cuts {
                    if c > from {
                        t += script.latency[2];
                        push(&mut s, t, Step::Chunk(from, c));
                        from = c;
                    }
                }
                t += script.latency[2];
                // (a 204 reply has no body by definition: whatever length the server announced is ignored, as hyper does)
                if (script.transport == Transport::ClosedMidBody && !body.is_empty() && script.announce_length) || (script.transport == Transport::ClosedAfterBody && script.status != 204 && script.announce_length) {
                    push(&mut s, t, Step::CloseMidBody);
                } else {
                    push(&mut s, t, Step::BodyEnd);
                }
            }
        }
        s.bodies.push(body);
        s.announced.push(script.announce_length);
        s.resp_headers.push(script.headers.clone());
        id
    })
}

pub fn poll_head(conn: usize) -> HeadState {
    SIM.with(|s| match &s.borrow().conns[conn].head {
        None => HeadState::Pending,
        Some(Ok(st)) => HeadState::Ready(*st),
        Some(Err(e)) => HeadState::Failed(e.clone()),
    })
}

pub fn poll_chunk(conn: usize, read: usize) -> ChunkState {
    SIM.with(|s| {
        let s = s.borrow();
        let c = &s.conns[conn];
        if c.body.len() > read {
            return ChunkState::Data(c.body[read..].to_vec());
        }
        match &c.body_done {
            None => ChunkState::Pending,
            Some(Ok(())) => ChunkState::End,
            Some(Err(e)) => ChunkState::Failed(e.clone()),
        }
    })
}

pub fn content_length(conn: usize) -> Option<u64> {
    SIM.with(|s| {
        let s = s.borrow();
        if s.announced.get(conn).copied().unwrap_or(true) {
            s.bodies.get(conn).map(|b| b.len() as u64)
        } else {
            None
        }
    })
}

/// The response headers of a delivered head (scripted ones plus Content-Length when announced).
pub fn response_headers(conn: usize) -> Vec<(String, String)> {
    SIM.with(|s| {
        let s = s.borrow();
        let mut h = s.resp_headers.get(conn).cloned().unwrap_or_default();
        if s.announced.get(conn).copied().unwrap_or(true) {
            if let Some(b) = s.bodies.get(conn) {
                h.push(("content-length".into(), b.len().to_string()));
            }
        } else {
            h.push(("transfer-encoding".into(), "chunked".into()));
        }
        h
    })
}

/// `sleep` on the virtual clock: registers a timer for the current task, returns its index.
pub fn set_timer(us: u64) -> usize {
    SIM.with(|s| {
        let mut s = s.borrow_mut();
        let task = s.current_task;
        let id = s.timers.len();
        s.timers.push((task, false));
        record(&mut s, task, None, EvKind::TimerSet(us));
        s.seq += 1;
        let (at, q) = (s.now.saturating_add(us), s.seq);
        s.queue.push(Reverse((at, q, id, Step::Timer)));
        id
    })
}
pub fn timer_fired(id: usize) -> bool {
    SIM.with(|s| s.borrow().timers.get(id).is_some_and(|t| t.1))
}

pub fn poll_body(conn: usize) -> BodyState {
    SIM.with(|s| {
        let s = s.borrow();
        let c = &s.conns[conn];
        match &c.body_done {
            None => BodyState::Pending,
            Some(Ok(())) => BodyState::Complete(c.body.clone()),
            Some(Err(e)) => BodyState::Failed(e.clone()),
        }
    })
}

/// Delivers the earliest pending network event. Returns the task it concerns, or None if the queue is empty.
fn deliver_next() -> Option<usize> {
    SIM.with(|s| {
        let mut s = s.borrow_mut();
        let Reverse((at, _q, id, step)) = s.queue.pop()?;
        if at > s.now {
            s.now = at; // nothing is runnable before: jump the virtual clock
        }
        if step == Step::Timer {
            s.timers[id].1 = true;
            let task = s.timers[id].0;
            record(&mut s, task, None, EvKind::TimerFired);
            return Some(task);
        }
        let task = s.conns[id].task;
        match step {
            Step::Timer => {}
            Step::Refuse => {
                s.conns[id].head = Some(Err("error sending request: connection refused".into()));
                record(&mut s, task, Some(id), EvKind::Refused);
            }
            Step::CloseBeforeHead => {
                s.conns[id].head = Some(Err("error sending request: connection closed before message completed".into()));
                record(&mut s, task, Some(id), EvKind::Closed("before-head"));
            }
            Step::Head(st) => {
                s.conns[id].head = Some(Ok(st));
                record(&mut s, task, Some(id), EvKind::HeadDelivered(st));
            }
            Step::Chunk(a, b) => {
                let part = s.bodies[id][a..b].to_vec();
                s.conns[id].body.extend_from_slice(&part);
                record(&mut s, task, Some(id), EvKind::Chunk(b - a));
            }
            Step::BodyEnd => {
                s.conns[id].body_done = Some(Ok(()));
                record(&mut s, task, Some(id), EvKind::BodyComplete);
            }
            Step::CloseMidBody => {
                s.conns[id].body_done = Some(Err("error decoding response body: connection closed before the body was complete".into()));
                record(&mut s, task, Some(id), EvKind::Closed("mid-body"));
            }
        }
        Some(task)
    })
}

fn events_pending_for(task: usize) -> bool {
    SIM.with(|s| {
        let s = s.borrow();
        s.queue.iter().any(|Reverse((_, _, id, st))| if *st == Step::Timer { s.timers[*id].0 == task } else { s.conns[*id].task == task })
    })
}
fn events_pending() -> bool {
    SIM.with(|s| !s.borrow().queue.is_empty())
}

fn noop_waker() -> Waker {
    fn clone(_: *const ()) -> RawWaker {
        RawWaker::new(std::ptr::null(), &VTABLE)
    }
    fn noop(_: *const ()) {}
    static VTABLE: RawWakerVTable = RawWakerVTable::new(clone, noop, noop, noop);
    unsafe { Waker::from_raw(RawWaker::new(std::ptr::null(), &VTABLE)) }
}

pub struct RunOutcome<T> {
    pub results: Vec<Option<T>>,
    pub steps: u64,
    pub hit_step_cap: bool,
    /// per task: executor steps between its last network event and its completion (bounded-progress probe)
    pub steps_after_last_event: Vec<u64>,
    pub deadlocked: bool,
}

pub type Task<T> = Pin<Box<dyn Future<Output = T>>>;

/// The executor: at every step the chooser decides between polling one of the runnable tasks and delivering
/// the next network event; when nothing is runnable the clock jumps to the next event.
/// `invariant` is evaluated after every step.
pub fn run<T>(
    tasks: Vec<Task<T>>,
    choose: &mut dyn FnMut(&'static str, u64) -> u64,
    step_cap: u64,
    invariant: &mut dyn FnMut() -> Result<(), String>,
) -> (RunOutcome<T>, Option<String>) {
    run_round(tasks, 0, choose, step_cap, invariant)
}

/// One round of concurrently started tasks; `base` is the global id of the round's first task (scripts, history and
/// connections are indexed by global task id, so several rounds form one history on one service value).
pub fn run_round<T>(
    mut tasks: Vec<Task<T>>,
    base: usize,
    choose: &mut dyn FnMut(&'static str, u64) -> u64,
    step_cap: u64,
    invariant: &mut dyn FnMut() -> Result<(), String>,
) -> (RunOutcome<T>, Option<String>) {
    let n = tasks.len();
    let mut results: Vec<Option<T>> = (0..n).map(|_| None).collect();
    let mut runnable = vec![true; n];
    let mut quiet_steps = vec![0u64; n];
    let mut steps = 0u64;
    let waker = noop_waker();
    let mut cx = Context::from_waker(&waker);
    let mut broken = None;
    let mut deadlocked = false;
    loop {
        let live: Vec<usize> = (0..n).filter(|i| results[*i].is_none()).collect();
        if live.is_empty() {
            break;
        }
        if steps >= step_cap {
            break;
        }
        let ready: Vec<usize> = live.iter().copied().filter(|i| runnable[*i]).collect();
        let can_deliver = events_pending();
        if ready.is_empty() && !can_deliver {
            deadlocked = true;
            break;
        }
        let options = ready.len() as u64 + u64::from(can_deliver);
        let pick = if options > 1 { choose("schedule", options) } else { 0 } as usize;
        steps += 1;
        if pick < ready.len() {
            let t = ready[pick];
            SIM.with(|s| s.borrow_mut().current_task = base + t);
            match tasks[t].as_mut().poll(&mut cx) {
                Poll::Ready(v) => {
                    results[t] = Some(v);
                    SIM.with(|s| {
                        let mut s = s.borrow_mut();
                        record(&mut s, base + t, None, EvKind::TaskCompleted);
                    });
                }
                Poll::Pending => runnable[t] = false,
            }
        } else if let Some(t) = deliver_next() {
            if t >= base && t - base < n {
                runnable[t - base] = true;
            }
        }
        for i in &live {
            if results[*i].is_none() && !events_pending_for(base + *i) {
                quiet_steps[*i] += 1;
            }
        }
        if let Err(e) = invariant() {
            broken = Some(e);
            break;
        }
    }
    (RunOutcome { results, steps, hit_step_cap: steps >= step_cap, steps_after_last_event: quiet_steps, deadlocked }, broken)
}
