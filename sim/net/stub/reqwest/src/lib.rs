//! Stand-in for `reqwest` (DESIGN.md 4.3). The emitted client names only:
//!   reqwest::Client::{new, post}, RequestBuilder::{body, basic_auth, send},
//!   Response::{error_for_status_ref, text}, reqwest::Error (Debug + Display + std::error::Error).
//! Everything behind those calls is the simulator in `sim`: a single-threaded discrete-event network with a
//! scripted server, a virtual clock and a recorded history. No real socket, thread, timer or clock is used.

use std::fmt;
use std::future::Future;
use std::pin::Pin;
use std::task::{Context, Poll};

pub mod sim;

#[derive(Debug, Clone, Default)]
pub struct Client {
    _private: (),
}

impl Client {
    #[must_use]
    pub fn new() -> Self {
        sim::note_client_created();
        Client { _private: () }
    }
    pub fn post<U: AsRef<str>>(&self, url: U) -> RequestBuilder {
        RequestBuilder { method: "POST", url: url.as_ref().to_string(), body: None, auth: None, headers: Vec::new() }
    }
    pub fn get<U: AsRef<str>>(&self, url: U) -> RequestBuilder {
        RequestBuilder { method: "GET", url: url.as_ref().to_string(), body: None, auth: None, headers: Vec::new() }
    }
    pub fn head<U: AsRef<str>>(&self, url: U) -> RequestBuilder {
        RequestBuilder { method: "HEAD", url: url.as_ref().to_string(), body: None, auth: None, headers: Vec::new() }
    }
    pub fn put<U: AsRef<str>>(&self, url: U) -> RequestBuilder {
        RequestBuilder { method: "PUT", url: url.as_ref().to_string(), body: None, auth: None, headers: Vec::new() }
    }
    pub fn delete<U: AsRef<str>>(&self, url: U) -> RequestBuilder {
        RequestBuilder { method: "DELETE", url: url.as_ref().to_string(), body: None, auth: None, headers: Vec::new() }
    }
    #[must_use]
    pub fn builder() -> ClientBuilder {
        ClientBuilder { _private: () }
    }
}

#[derive(Debug, Default)]
pub struct ClientBuilder {
    _private: (),
}
impl ClientBuilder {
    #[must_use]
    pub fn timeout(self, _t: std::time::Duration) -> Self {
        self
    }
    pub fn build(self) -> Result<Client, Error> {
        Ok(Client::new())
    }
}

/// Subset of http::StatusCode.
#[derive(Clone, Copy, PartialEq, Eq, PartialOrd, Ord, Hash, Debug)]
pub struct StatusCode(u16);
impl StatusCode {
    pub const OK: StatusCode = StatusCode(200);
    pub const CREATED: StatusCode = StatusCode(201);
    pub const NO_CONTENT: StatusCode = StatusCode(204);
    pub const ACCEPTED: StatusCode = StatusCode(202);
    pub const BAD_REQUEST: StatusCode = StatusCode(400);
    pub const UNAUTHORIZED: StatusCode = StatusCode(401);
    pub const FORBIDDEN: StatusCode = StatusCode(403);
    pub const NOT_FOUND: StatusCode = StatusCode(404);
    pub const REQUEST_TIMEOUT: StatusCode = StatusCode(408);
    pub const CONFLICT: StatusCode = StatusCode(409);
    pub const TOO_MANY_REQUESTS: StatusCode = StatusCode(429);
    pub const BAD_GATEWAY: StatusCode = StatusCode(502);
    pub const GATEWAY_TIMEOUT: StatusCode = StatusCode(504);
    pub const INTERNAL_SERVER_ERROR: StatusCode = StatusCode(500);
    pub const SERVICE_UNAVAILABLE: StatusCode = StatusCode(503);
    #[must_use]
    pub fn as_u16(&self) -> u16 {
        self.0
    }
    #[must_use]
    pub fn is_informational(&self) -> bool {
        (100..200).contains(&self.0)
    }
    #[must_use]
    pub fn is_success(&self) -> bool {
        (200..300).contains(&self.0)
    }
    #[must_use]
    pub fn is_redirection(&self) -> bool {
        (300..400).contains(&self.0)
    }
    #[must_use]
    pub fn is_client_error(&self) -> bool {
        (400..500).contains(&self.0)
    }
    #[must_use]
    pub fn is_server_error(&self) -> bool {
        (500..600).contains(&self.0)
    }
}
impl PartialEq<u16> for StatusCode {
    fn eq(&self, o: &u16) -> bool {
        self.0 == *o
    }
}
impl fmt::Display for StatusCode {
    fn fmt(&self, f: &mut fmt::Formatter<'_>) -> fmt::Result {
        write!(f, "{}", self.0)
    }
}

#[derive(Debug)]
pub struct RequestBuilder {
    method: &'static str,
    url: String,
    body: Option<String>,
    auth: Option<(String, Option<String>)>,
    headers: Vec<(String, String)>,
}

impl RequestBuilder {
    #[must_use]
    pub fn try_clone(&self) -> Option<RequestBuilder> {
        Some(RequestBuilder { method: self.method, url: self.url.clone(), body: self.body.clone(), auth: self.auth.clone(), headers: self.headers.clone() })
    }
    #[must_use]
    pub fn header<K: fmt::Display, V: fmt::Display>(mut self, k: K, v: V) -> Self {
        self.headers.push((k.to_string(), v.to_string()));
        self
    }
    #[must_use]
    pub fn timeout(self, _t: std::time::Duration) -> Self {
        self
    }
    #[must_use]
    pub fn body<B: Into<String>>(mut self, body: B) -> Self {
        self.body = Some(body.into());
        self
    }
    #[must_use]
    pub fn basic_auth<U: fmt::Display, P: fmt::Display>(mut self, username: U, password: Option<P>) -> Self {
        self.auth = Some((username.to_string(), password.map(|p| p.to_string())));
        self
    }
    pub fn send(self) -> impl Future<Output = Result<Response, Error>> {
        SendFuture { req: Some(self), conn: None }
    }
}

struct SendFuture {
    req: Option<RequestBuilder>,
    conn: Option<usize>,
}

impl Future for SendFuture {
    type Output = Result<Response, Error>;
    fn poll(mut self: Pin<&mut Self>, _cx: &mut Context<'_>) -> Poll<Self::Output> {
        if let Some(rb) = self.req.take() {
            let conn = sim::open_connection(sim::Request { method: rb.method, url: rb.url, body: rb.body.unwrap_or_default(), auth: rb.auth, headers: rb.headers });
            self.conn = Some(conn);
        }
        let conn = self.conn.expect("connection");
        match sim::poll_head(conn) {
            sim::HeadState::Pending => Poll::Pending,
            sim::HeadState::Ready(status) => Poll::Ready(Ok(Response {
                conn,
                status,
                read: 0,
                headers: header::HeaderMap { entries: sim::response_headers(conn).into_iter().map(|(n, v)| (n.to_ascii_lowercase(), header::HeaderValue(v))).collect() },
            })),
            sim::HeadState::Failed(what) => Poll::Ready(Err(Error { kind: Kind::Request, status: None, msg: what })),
        }
    }
}

#[derive(Debug)]
pub struct Response {
    conn: usize,
    status: u16,
    /// number of body bytes already handed out through `chunk()`
    read: usize,
    headers: header::HeaderMap,
}

/// Subset of http::header.
pub mod header {
    #[derive(Clone, Copy, Debug, PartialEq, Eq, Hash)]
    pub struct HeaderName(pub(crate) &'static str);
    impl HeaderName {
        #[must_use]
        pub fn as_str(&self) -> &str {
            self.0
        }
    }
    impl std::fmt::Display for HeaderName {
        fn fmt(&self, f: &mut std::fmt::Formatter<'_>) -> std::fmt::Result {
            f.write_str(self.0)
        }
    }
    pub const RETRY_AFTER: HeaderName = HeaderName("retry-after");
    pub const CONTENT_TYPE: HeaderName = HeaderName("content-type");
    pub const CONTENT_LENGTH: HeaderName = HeaderName("content-length");
    pub const LOCATION: HeaderName = HeaderName("location");
    pub const WWW_AUTHENTICATE: HeaderName = HeaderName("www-authenticate");
    pub const AUTHORIZATION: HeaderName = HeaderName("authorization");
    pub const CONNECTION: HeaderName = HeaderName("connection");
    pub const SERVER: HeaderName = HeaderName("server");
    pub const DATE: HeaderName = HeaderName("date");
    pub const ACCEPT: HeaderName = HeaderName("accept");
    pub const USER_AGENT: HeaderName = HeaderName("user-agent");
    pub const TRANSFER_ENCODING: HeaderName = HeaderName("transfer-encoding");

    #[derive(Clone, Debug, PartialEq, Eq)]
    pub struct ToStrError;
    impl std::fmt::Display for ToStrError {
        fn fmt(&self, f: &mut std::fmt::Formatter<'_>) -> std::fmt::Result {
            f.write_str("failed to convert header to a str")
        }
    }
    impl std::error::Error for ToStrError {}

    #[derive(Clone, Debug, PartialEq, Eq)]
    pub struct HeaderValue(pub(crate) String);
    impl HeaderValue {
        /// Like http: only visible ASCII (and blanks/tabs) converts.
        pub fn to_str(&self) -> Result<&str, ToStrError> {
            if self.0.bytes().all(|b| b == b'\t' || (32..127).contains(&b)) {
                Ok(&self.0)
            } else {
                Err(ToStrError)
            }
        }
        #[must_use]
        pub fn as_bytes(&self) -> &[u8] {
            self.0.as_bytes()
        }
        #[must_use]
        pub fn len(&self) -> usize {
            self.0.len()
        }
        #[must_use]
        pub fn is_empty(&self) -> bool {
            self.0.is_empty()
        }
    }
    impl PartialEq<str> for HeaderValue {
        fn eq(&self, o: &str) -> bool {
            self.0 == o
        }
    }
    impl PartialEq<&str> for HeaderValue {
        fn eq(&self, o: &&str) -> bool {
            self.0 == *o
        }
    }

    pub trait AsHeaderName {
        fn lower(&self) -> String;
    }
    impl AsHeaderName for HeaderName {
        fn lower(&self) -> String {
            self.0.to_ascii_lowercase()
        }
    }
    impl AsHeaderName for &HeaderName {
        fn lower(&self) -> String {
            self.0.to_ascii_lowercase()
        }
    }
    impl AsHeaderName for &str {
        fn lower(&self) -> String {
            self.to_ascii_lowercase()
        }
    }
    impl AsHeaderName for String {
        fn lower(&self) -> String {
            self.to_ascii_lowercase()
        }
    }
    impl AsHeaderName for &String {
        fn lower(&self) -> String {
            self.to_ascii_lowercase()
        }
    }

    #[derive(Clone, Debug, Default, PartialEq, Eq)]
    pub struct HeaderMap {
        pub(crate) entries: Vec<(String, HeaderValue)>,
    }
    impl HeaderMap {
        pub fn get<K: AsHeaderName>(&self, k: K) -> Option<&HeaderValue> {
            let k = k.lower();
            self.entries.iter().find(|(n, _)| *n == k).map(|(_, v)| v)
        }
        pub fn contains_key<K: AsHeaderName>(&self, k: K) -> bool {
            self.get(k).is_some()
        }
        #[must_use]
        pub fn len(&self) -> usize {
            self.entries.len()
        }
        #[must_use]
        pub fn is_empty(&self) -> bool {
            self.entries.is_empty()
        }
        pub fn iter(&self) -> impl Iterator<Item = (&str, &HeaderValue)> {
            self.entries.iter().map(|(n, v)| (n.as_str(), v))
        }
    }
}

/// `tokio::time::sleep` and friends are served by the same virtual clock (the stub crate named tokio forwards here).
pub struct Sleep {
    us: u64,
    timer: Option<usize>,
}
#[must_use]
pub fn virtual_sleep(d: std::time::Duration) -> Sleep {
    Sleep { us: u64::try_from(d.as_micros()).unwrap_or(u64::MAX / 4), timer: None }
}
impl Future for Sleep {
    type Output = ();
    fn poll(mut self: Pin<&mut Self>, _cx: &mut Context<'_>) -> Poll<()> {
        let us = self.us;
        let id = *self.timer.get_or_insert_with(|| sim::set_timer(us));
        if sim::timer_fired(id) {
            Poll::Ready(())
        } else {
            Poll::Pending
        }
    }
}

/// Stand-in for bytes::Bytes (what `chunk()`/`bytes()` hand out).
#[derive(Clone, Debug, PartialEq, Eq, Default)]
pub struct Bytes(Vec<u8>);
impl std::ops::Deref for Bytes {
    type Target = [u8];
    fn deref(&self) -> &[u8] {
        &self.0
    }
}
impl AsRef<[u8]> for Bytes {
    fn as_ref(&self) -> &[u8] {
        &self.0
    }
}
impl Bytes {
    #[must_use]
    pub fn to_vec(&self) -> Vec<u8> {
        self.0.clone()
    }
}
impl From<Bytes> for Vec<u8> {
    fn from(b: Bytes) -> Vec<u8> {
        b.0
    }
}
impl IntoIterator for Bytes {
    type Item = u8;
    type IntoIter = std::vec::IntoIter<u8>;
    fn into_iter(self) -> Self::IntoIter {
        self.0.into_iter()
    }
}

impl Response {
    #[must_use]
    pub fn status(&self) -> StatusCode {
        StatusCode(self.status)
    }
    pub fn bytes(self) -> impl Future<Output = Result<Bytes, Error>> {
        let t = TextFuture { conn: self.conn };
        async move { t.await.map(|s| Bytes(s.into_bytes())) }
    }
    /// Streams the body: the bytes that arrived since the last call, `None` at the end of the body.
    pub fn chunk(&mut self) -> impl Future<Output = Result<Option<Bytes>, Error>> + '_ {
        ChunkFuture { resp: self }
    }
    /// The response headers (scripted by the simulated server).
    #[must_use]
    pub fn headers(&self) -> &header::HeaderMap {
        &self.headers
    }
    #[must_use]
    pub fn content_length(&self) -> Option<u64> {
        sim::content_length(self.conn)
    }
    /// `Err` iff the status is a client or server error (400..=599), like reqwest.
    pub fn error_for_status_ref(&self) -> Result<&Self, Error> {
        if (400..600).contains(&self.status) {
            Err(Error { kind: Kind::Status, status: Some(self.status), msg: format!("HTTP status {}", self.status) })
        } else {
            Ok(self)
        }
    }
    pub fn error_for_status(self) -> Result<Self, Error> {
        if (400..600).contains(&self.status) {
            Err(Error { kind: Kind::Status, status: Some(self.status), msg: format!("HTTP status {}", self.status) })
        } else {
            Ok(self)
        }
    }
    pub fn text(self) -> impl Future<Output = Result<String, Error>> {
        TextFuture { conn: self.conn }
    }
}

struct ChunkFuture<'a> {
    resp: &'a mut Response,
}
impl Future for ChunkFuture<'_> {
    type Output = Result<Option<Bytes>, Error>;
    fn poll(mut self: Pin<&mut Self>, _cx: &mut Context<'_>) -> Poll<Self::Output> {
        let (conn, read) = (self.resp.conn, self.resp.read);
        match sim::poll_chunk(conn, read) {
            sim::ChunkState::Pending => Poll::Pending,
            sim::ChunkState::Data(d) => {
                self.resp.read += d.len();
                Poll::Ready(Ok(Some(Bytes(d))))
            }
            sim::ChunkState::End => Poll::Ready(Ok(None)),
            sim::ChunkState::Failed(what) => Poll::Ready(Err(Error { kind: Kind::Body, status: None, msg: what })),
        }
    }
}

struct TextFuture {
    conn: usize,
}

impl Future for TextFuture {
    type Output = Result<String, Error>;
    fn poll(self: Pin<&mut Self>, _cx: &mut Context<'_>) -> Poll<Self::Output> {
        match sim::poll_body(self.conn) {
            sim::BodyState::Pending => Poll::Pending,
            sim::BodyState::Complete(bytes) => Poll::Ready(Ok(String::from_utf8_lossy(&bytes).into_owned())),
            sim::BodyState::Failed(what) => Poll::Ready(Err(Error { kind: Kind::Body, status: None, msg: what })),
        }
    }
}

#[derive(Debug, Clone, Copy, PartialEq, Eq)]
enum Kind {
    Request,
    Status,
    Body,
}

pub struct Error {
    kind: Kind,
    status: Option<u16>,
    msg: String,
}

impl Error {
    #[must_use]
    pub fn is_status(&self) -> bool {
        self.kind == Kind::Status
    }
    #[must_use]
    pub fn status(&self) -> Option<StatusCode> {
        self.status.map(StatusCode)
    }
    #[must_use]
    pub fn is_connect(&self) -> bool {
        self.kind == Kind::Request
    }
    #[must_use]
    pub fn is_timeout(&self) -> bool {
        false
    }
    #[must_use]
    pub fn is_body(&self) -> bool {
        self.kind == Kind::Body
    }
    #[must_use]
    pub fn is_request(&self) -> bool {
        self.kind == Kind::Request
    }
}

impl fmt::Debug for Error {
    fn fmt(&self, f: &mut fmt::Formatter<'_>) -> fmt::Result {
        write!(f, "reqwest::Error {{ kind: {:?}, status: {:?}, message: {:?} }}", self.kind, self.status, self.msg)
    }
}
impl fmt::Display for Error {
    fn fmt(&self, f: &mut fmt::Formatter<'_>) -> fmt::Result {
        write!(f, "{}", self.msg)
    }
}
impl std::error::Error for Error {}
