//! Stand-in for `tokio::time`: every timer is an event of the discrete-event simulation in the stub `reqwest`
//! (virtual microseconds; the clock jumps when nothing is runnable, so a minute of back-off costs nothing).
pub mod time {
    pub use std::time::Duration;
    use std::future::Future;
    use std::pin::Pin;
    use std::task::{Context, Poll};

    pub fn sleep(d: Duration) -> reqwest::Sleep {
        reqwest::virtual_sleep(d)
    }

    #[derive(Debug, PartialEq, Eq)]
    pub struct Elapsed;
    impl std::fmt::Display for Elapsed {
        fn fmt(&self, f: &mut std::fmt::Formatter<'_>) -> std::fmt::Result {
            f.write_str("deadline has elapsed")
        }
    }
    impl std::error::Error for Elapsed {}

    pub struct Timeout<F> {
        fut: Pin<Box<F>>,
        sleep: reqwest::Sleep,
    }
    pub fn timeout<F: Future>(d: Duration, fut: F) -> Timeout<F> {
        Timeout { fut: Box::pin(fut), sleep: reqwest::virtual_sleep(d) }
    }
    impl<F: Future> Future for Timeout<F> {
        type Output = Result<F::Output, Elapsed>;
        fn poll(self: Pin<&mut Self>, cx: &mut Context<'_>) -> Poll<Self::Output> {
            let this = unsafe { self.get_unchecked_mut() };
            if let Poll::Ready(v) = this.fut.as_mut().poll(cx) {
                return Poll::Ready(Ok(v));
            }
            match Pin::new(&mut this.sleep).poll(cx) {
                Poll::Ready(()) => Poll::Ready(Err(Elapsed)),
                Poll::Pending => Poll::Pending,
            }
        }
    }
}
