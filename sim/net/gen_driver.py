#!/usr/bin/env python3
"""Generates the NET harness sources from the working tree: runs the zeep binary on every corpus WSDL, scans the
emitted text for the service struct and its async methods (no naming rule of zeep is predicted here) and writes
clients/mod.rs with one client_ctx! table per client."""
import json, os, re, subprocess, sys

VERIF = os.environ.get("VERIF_ROOT", "/verif")
REPO = os.environ.get("VERIF_REPO", "/repo")
ZEEP = os.environ.get("VERIF_ZEEP_BIN", VERIF + "/target/repo/release/zeep")
out_dir = sys.argv[1]
extra = sys.argv[2:]  # extra "name=path" corpus entries (generated WSDLs in the thorough tier)

corpus = [
    ("orders", VERIF + "/corpus/orders/orders.wsdl"),
    ("inventory", VERIF + "/corpus/inventory/inventory.wsdl"),
    ("hello", REPO + "/resources/hello/hello.wsdl"),
    ("tempconverter", REPO + "/resources/temp_converter/tempconverter.wsdl"),
    ("aic_workflow", REPO + "/resources/aic/workflow_wsdl.xml"),
    ("aic_agent", REPO + "/resources/aic/agent_wsdl.xml"),
]
for e in extra:
    n, p = e.split("=", 1)
    corpus.append((n, p))

os.makedirs(out_dir, exist_ok=True)
mods, infos, ctxs, notes = [], [], [], []
idx = 0
for name, wsdl in corpus:
    if not os.path.isfile(wsdl):
        notes.append(f"{name}: missing {wsdl}")
        continue
    rs = os.path.join(out_dir, f"c{idx}.rs")
    r = subprocess.run([ZEEP, "-i", wsdl, "-o", rs], capture_output=True, text=True, env={"PATH": "/usr/bin:/bin", "RUST_BACKTRACE": "0"})
    if r.returncode != 0:
        notes.append(f"{name}: generator failed: {r.stderr.strip()[:300]}")
        continue
    text = open(rs).read()
    services = re.findall(r"pub struct (\w+) \{\s*pub client: reqwest::Client,", text)
    if len(services) != 1:
        notes.append(f"{name}: {len(services)} service structs emitted, skipped")
        os.remove(rs)
        continue
    svc = services[0]
    impl = text[text.index(f"impl {svc} {{"):]
    ops = re.findall(r"pub async fn (\w+)\(&self, req: (\w+)\) -> error::SoapResult<(\w+)>", impl)
    oneway = re.findall(r"pub async fn (\w+)\(&self, req: (\w+)\) -> error::SoapResult<\(\)>", impl)
    if oneway:
        notes.append(f"{name}: one-way operations {[o[0] for o in oneway]} emit SoapResult<()> (not drivable), client skipped")
        os.remove(rs)
        continue
    if not ops:
        notes.append(f"{name}: no operations found")
        os.remove(rs)
        continue
    wtext = open(wsdl, encoding="utf-8", errors="replace").read()
    m = re.search(r"<(?:\w+:)?address\s+location=\"([^\"]+)\"", wtext)
    loc = m.group(1) if m else ""
    inst_src = os.path.join(VERIF, "corpus", "instances", name + ".json")
    inst_dst = os.path.join(out_dir, f"c{idx}.instances.json")
    sib = os.path.splitext(wsdl)[0] + ".instances.json"
    raw = json.load(open(inst_src)) if os.path.isfile(inst_src) else (json.load(open(sib)) if os.path.isfile(sib) else {})
    # instance documents may be keyed by WSDL operation name; attach them to the emitted method (and free function)
    # whose name is the same up to case and underscores - a tolerant match, not a prediction of zeep's naming
    norm = lambda x: x.replace("_", "").lower()
    inst = {}
    emitted_names = [o[0] for o in ops]
    for k, v in raw.items():
        for n in emitted_names:
            if norm(n) == norm(k):
                inst[n] = v
                inst["fn:" + n] = v
    json.dump(inst, open(inst_dst, "w"))
    if raw and len(inst) < len(raw):
        notes.append(f"{name}: {len(raw) - len(inst) // 2} instance documents matched no emitted operation")
    free = re.findall(r"\npub async fn (\w+)\(req: (\w+), credentials: Option<\(String, String\)>\) -> error::SoapResult<(\w+)>", text)
    mods.append(f"#[allow(clippy::all, warnings)]\npub mod c{idx};")
    def parts(In):
        m2 = re.search(r"pub struct " + In + r" \{(.*?)\n\}", text, re.S)
        has_header = bool(m2 and "pub header:" in m2.group(1))
        hdr = "r.header.check_restrictions(None).map_err(|e| e.to_string())?; " if has_header else ""
        return f"|r: &c{idx}::{In}| {{ use c{idx}::restrictions::CheckRestrictions; {hdr}r.body.check_restrictions(None).map_err(|e| e.to_string()) }}"
    entries = []
    names = []
    for o in ops:
        call = f"|svc, _creds, req| Box::pin(async move {{ svc.{o[0]}(req).await }})"
        entries.append((call, o[1], o[2], parts(o[1])))
        names.append(o[0])
    for o in free:
        call = f"|_svc, creds, req| Box::pin(async move {{ c{idx}::{o[0]}(req, creds).await }})"
        entries.append((call, o[1], o[2], parts(o[1])))
        names.append("fn:" + o[0])
    opnames = ", ".join(f'"{n}"' for n in names)
    infos.append(
        f'        crate::ClientInfo {{ name: "{name}", wsdl_location: "{loc}", ops: &[{opnames}], '
        f"make: |creds| Box::new(Ctx{idx} {{ svc: std::rc::Rc::new(c{idx}::{svc}::new(creds.clone())), creds }}), "
        f'instances_json: include_str!("c{idx}.instances.json") }},'
    )
    table = ",\n    ".join(f"({i}, {e[0]}, {e[1]}, {e[2]}, {e[3]})" for i, e in enumerate(entries))
    ctxs.append(f"crate::client_ctx!(Ctx{idx}, c{idx}, {svc}, [\n    {table}\n]);")
    idx += 1

with open(os.path.join(out_dir, "mod.rs"), "w") as f:
    f.write("// generated by gen_driver.py - do not edit\n")
    f.write("\n".join(mods) + "\n\n")
    f.write("pub fn all() -> Vec<crate::ClientInfo> {\n    vec![\n" + "\n".join(infos) + "\n    ]\n}\n\n")
    f.write("\n".join(ctxs) + "\n")
json.dump({"clients": idx, "notes": notes}, open(os.path.join(out_dir, "generation.json"), "w"), indent=1)
print(json.dumps({"clients": idx, "notes": notes}))
sys.exit(0 if idx > 0 else 2)
