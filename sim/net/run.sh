#!/bin/bash
# NET engine driver: regenerate the clients from the working tree, compile them against the stub, run the check.
set -u
VERIF=/verif
id=$1; shift
WS=$VERIF/target/net/ws
mkdir -p "$WS/src/clients" "$VERIF/target/logs"
export CARGO_NET_OFFLINE=true
(cd "${VERIF_REPO:-/repo}" && cargo build --release --offline -p zeep --target-dir "$VERIF/target/repo") >"$VERIF/target/logs/build-zeep.log" 2>&1 \
  || { tail -30 "$VERIF/target/logs/build-zeep.log" >&2; echo "HARNESS-ERROR: cannot build zeep" >&2; exit 2; }
cp "$VERIF/sim/net/harness/Cargo.toml" "$WS/Cargo.toml"
[ -f "$WS/Cargo.lock" ] || cp "$VERIF/sim/Cargo.lock" "$WS/Cargo.lock"
cp "$VERIF/sim/net/harness/src/main.rs" "$WS/src/main.rs.new"
cmp -s "$WS/src/main.rs.new" "$WS/src/main.rs" 2>/dev/null || cp "$WS/src/main.rs.new" "$WS/src/main.rs"
# generated WSDLs (NET profile, with instance documents): a few in quick, more in thorough
NGEN=3; case " $* " in *" thorough "*) NGEN=${VERIF_NET_GENERATED:-24};; esac
[ "$id" = "build-only" ] && NGEN=3
(cd "$VERIF/sim" && cargo build --release --offline -p sim-det) >"$VERIF/target/logs/build-sim-det.log" 2>&1 \
  || { tail -30 "$VERIF/target/logs/build-sim-det.log" >&2; echo "HARNESS-ERROR: cannot build sim-det" >&2; exit 2; }
EXTRA=""
rm -rf "$VERIF/target/net/gen"; mkdir -p "$VERIF/target/net/gen"
for g in $(seq 0 $((NGEN-1))); do
  "$VERIF/target/sim/release/sim-det" gen-net "$g" "$VERIF/target/net/gen/g$g" >/dev/null || { echo "HARNESS-ERROR: generator failed" >&2; exit 2; }
  EXTRA="$EXTRA generated_$g=$VERIF/target/net/gen/g$g/gen.wsdl"
done
GEN=$WS/src/clients.new
rm -rf "$GEN"; mkdir -p "$GEN"
python3 "$VERIF/sim/net/gen_driver.py" "$GEN" $EXTRA ${VERIF_NET_EXTRA:-} >"$VERIF/target/logs/net-gen.log" 2>&1 \
  || { cat "$VERIF/target/logs/net-gen.log" >&2; echo "HARNESS-ERROR: no client could be generated from the working tree" >&2; exit 2; }
# keep mtimes when nothing changed so that cargo does not rebuild
for f in "$GEN"/*; do
  b=$(basename "$f")
  cmp -s "$f" "$WS/src/clients/$b" 2>/dev/null || cp "$f" "$WS/src/clients/$b"
done
for f in "$WS/src/clients"/*; do [ -e "$GEN/$(basename "$f")" ] || rm -f "$f"; done
(cd "$WS" && cargo build --release --offline --target-dir "$VERIF/target/net/target") >"$VERIF/target/logs/build-net.log" 2>&1 \
  || { grep -E "^(error|warning: unused)" -A12 "$VERIF/target/logs/build-net.log" | head -80 >&2; echo "HARNESS-ERROR: the emitted clients do not compile against the stub (build error, not a verdict; see target/logs/build-net.log)" >&2; exit 2; }
[ "$id" = "build-only" ] && exit 0
cd "$VERIF" && exec "$VERIF/target/net/target/release/net-harness" "$id" "$@"
