//! NET engine (DESIGN.md 4.3) – decides C16 and sentence 2 of C07.
//!
//! Real code: everything the generator emitted for the corpus WSDLs (`clients/c*.rs`, generated at check time from
//! the working tree): envelopes, check_restrictions impls, service structs and their async methods, the
//! `helpers::send_soap_request_using_client` helper, `error::SoapError`; yaserde/xml-rs/log.
//! Stub: the crate `reqwest` (../stub/reqwest) – executor, network, server and clock are the simulator.

use reqwest::sim::{self, EvKind, Script, Transport};
use simkernel::serde_json::{json, Value};
use simkernel::{Chooser, Report, Rng, Violation};
use std::collections::{BTreeMap, HashSet};
use std::future::Future;
use std::pin::Pin;
use std::sync::atomic::{AtomicUsize, Ordering};
use std::sync::Mutex;

mod clients;

// ------------------------------------------------------------------------------------------------
// interface to the generated drivers

#[derive(Clone, Debug)]
pub enum CallResult {
    Value(String),
    Error { variant: &'static str, text: String },
}

pub type Fut = Pin<Box<dyn Future<Output = CallResult>>>;

pub struct PrepArgs {
    pub req_xml: Option<String>,
    pub resp_xml: Option<String>,
    /// no instance document: use the Default value with every empty leaf element filled with "1"
    pub fill_request: bool,
}

/// `<a></a>` -> `<a>1</a>` for every empty leaf element: "1" is valid text for strings, integers, floats and booleans.
pub fn fill_leaves(xml: &str) -> String {
    let b = xml.as_bytes();
    let mut out = String::with_capacity(xml.len() + 64);
    let mut i = 0;
    while i < b.len() {
        if b[i] == b'>' && i + 2 < b.len() && b[i + 1] == b'<' && b[i + 2] == b'/' && i > 0 && b[i - 1] != b'/' && b[i - 1] != b'?' {
            // is the tag that just closed an opening tag whose name equals the closing name?
            let open_start = xml[..i].rfind('<').unwrap_or(0);
            let open_name: String = xml[open_start + 1..i].chars().take_while(|c| !c.is_whitespace()).collect();
            let close_end = xml[i + 3..].find('>').map_or(b.len(), |p| i + 3 + p);
            let close_name = &xml[i + 3..close_end];
            if !open_name.starts_with('/') && open_name == close_name {
                out.push_str(">1");
                i += 1;
                continue;
            }
        }
        out.push(b[i] as char);
        i += 1;
    }
    if xml.is_ascii() { out } else { xml.to_string() }
}

pub struct Prepared {
    pub unusable: Option<String>,
    /// the emitted check's own verdict on the twin of the request (the classifier of N5)
    pub twin_check: Result<(), String>,
    /// the emitted checks of the envelope's own parts (header struct, body struct) applied directly: structural
    /// delegation probe – if a part's check fails the envelope's check must fail as well
    pub parts_check: Result<(), String>,
    pub expected_body: String,
    pub exact_response: String,
    /// direct deserialization of a body text with the emitted response type: Ok(Debug text) / Err
    pub parse_out: Box<dyn Fn(&str) -> Result<String, String>>,
    pub fut: Option<Fut>,
}

impl Prepared {
    pub fn unusable(why: String) -> Self {
        Prepared { unusable: Some(why), twin_check: Ok(()), parts_check: Ok(()), expected_body: String::new(), exact_response: String::new(), parse_out: Box::new(|_| Err(String::new())), fut: None }
    }
}

pub trait ClientCtx {
    fn location(&self) -> String;
    fn start(&self, op: usize, a: &PrepArgs) -> Prepared;
}

pub struct ClientInfo {
    pub name: &'static str,
    pub wsdl_location: &'static str,
    pub ops: &'static [&'static str],
    pub make: fn(Option<(String, String)>) -> Box<dyn ClientCtx>,
    pub instances_json: &'static str,
}

#[macro_export]
macro_rules! client_ctx {
    ($ctx:ident, $m:ident, $svc:ident, [$(($i:expr, $call:expr, $In:ident, $Out:ident, $parts:expr)),* $(,)?]) => {
        pub struct $ctx {
            pub svc: std::rc::Rc<$m::$svc>,
            pub creds: Option<(String, String)>,
        }
        impl $crate::ClientCtx for $ctx {
            fn location(&self) -> String {
                self.svc.location.clone()
            }
            #[allow(unused_variables)]
            fn start(&self, op: usize, a: &$crate::PrepArgs) -> $crate::Prepared {
                #[allow(unused_imports)]
                use $m::restrictions::CheckRestrictions;
                match op {
                    $($i => {
                        let fill = a.fill_request;
                        let build = |xml: &Option<String>| -> Result<$m::$In, String> {
                            match xml {
                                Some(x) => yaserde::de::from_str::<$m::$In>(x),
                                None if fill => {
                                    let d = yaserde::ser::to_string(&<$m::$In>::default())?;
                                    Ok(yaserde::de::from_str::<$m::$In>(&$crate::fill_leaves(&d)).unwrap_or_default())
                                }
                                None => Ok(<$m::$In>::default()),
                            }
                        };
                        let (req, twin) = match (build(&a.req_xml), build(&a.req_xml)) {
                            (Ok(r), Ok(t)) => (r, t),
                            (Err(e), _) | (_, Err(e)) => return $crate::Prepared::unusable(format!("request instance does not deserialize: {e}")),
                        };
                        let twin_check = twin.check_restrictions(None).map_err(|e| e.to_string());
                        let parts: fn(&$m::$In) -> Result<(), String> = $parts;
                        let parts_check = parts(&twin);
                        let expected_body = match yaserde::ser::to_string(&twin) {
                            Ok(s) => s,
                            Err(e) => return $crate::Prepared::unusable(format!("request does not serialize: {e}")),
                        };
                        let out: $m::$Out = match &a.resp_xml {
                            Some(x) => match yaserde::de::from_str::<$m::$Out>(x) {
                                Ok(v) => v,
                                Err(e) => return $crate::Prepared::unusable(format!("response instance does not deserialize: {e}")),
                            },
                            None => {
                                // no instance document: the Default value with its empty leaves filled, re-read by the
                                // emitted type itself (empty string leaves do not deserialize: C04 territory)
                                let d = yaserde::ser::to_string(&<$m::$Out>::default()).unwrap_or_default();
                                yaserde::de::from_str::<$m::$Out>(&$crate::fill_leaves(&d)).unwrap_or_default()
                            }
                        };
                        let exact_response = match yaserde::ser::to_string(&out) {
                            Ok(s) => s,
                            Err(e) => return $crate::Prepared::unusable(format!("response does not serialize: {e}")),
                        };
                        let svc = self.svc.clone();
                        let creds = self.creds.clone();
                        let call: fn(std::rc::Rc<$m::$svc>, Option<(String, String)>, $m::$In) -> std::pin::Pin<Box<dyn std::future::Future<Output = $m::error::SoapResult<$m::$Out>>>> = $call;
                        let fut: $crate::Fut = Box::pin(async move {
                            match call(svc, creds, req).await {
                                Ok(v) => $crate::CallResult::Value(format!("{v:?}")),
                                Err(e) => {
                                    let variant = match &e {
                                        $m::error::SoapError::YaserdeError(_) => "YaserdeError",
                                        $m::error::SoapError::Http(_) => "Http",
                                        $m::error::SoapError::Restriction(_) => "Restriction",
                                    };
                                    $crate::CallResult::Error { variant, text: e.to_string() }
                                }
                            }
                        });
                        $crate::Prepared {
                            unusable: None,
                            twin_check,
                            parts_check,
                            expected_body,
                            exact_response,
                            parse_out: Box::new(|s: &str| yaserde::de::from_str::<$m::$Out>(s).map(|v| format!("{v:?}"))),
                            fut: Some(fut),
                        }
                    })*
                    _ => $crate::Prepared::unusable("no such operation".into()),
                }
            }
        }
    };
}

// ------------------------------------------------------------------------------------------------
// scenario

const STATUSES: [u16; 9] = [200, 201, 204, 400, 401, 403, 404, 500, 503];
const BODY_KINDS: [&str; 9] = ["exact", "reprefixed", "empty", "non-xml", "truncated", "soap-fault", "html(probe)", "fault-with-2xx(probe)", "text-before-envelope"];
/// Plain text a gateway or a MIME wrapper may put in front of the envelope: such a body is not a response envelope.
/// (No blank-only or BOM preamble: whether that still "is that envelope" the statement does not say.)
const PREAMBLES: [&str; 4] = ["Warning: upstream degraded, reply follows\n", "--MIME_boundary\r\nContent-Type: text/xml; charset=utf-8\r\n\r\n", "OK ", "200\n"];
const TRANSPORTS: [&str; 6] = ["ok", "refused", "closed-before-head", "closed-mid-body", "ok-in-chunks", "closed-after-complete-body-short-of-content-length"];
const CREDS: [&str; 6] = ["absent", "user/secret", "empty strings", "colon in both", "non-ascii", "300-char password"];

/// Credentials 0..5 are fixed; 6.. are generated from the value itself out of an alphabet of awkward characters
/// (separators, spaces at the ends, non-ASCII, quotes), so that "arbitrary text" is really explored.
const N_CREDS: u64 = 6 + 64;
fn creds_of(k: u64) -> Option<(String, String)> {
    if k >= 6 {
        const ALPHA: [&str; 14] = ["a", "Z", "7", ":", " ", "\u{e9}", "%", "@", "\"", "\\", "\t", "\u{4e16}", "\r", "\n"];
        let mut st = k.wrapping_mul(0x9e37_79b9_7f4a_7c15);
        let mut gen = |max: u64| {
            let n = simkernel::splitmix64(&mut st) % (max + 1);
            (0..n).map(|_| ALPHA[(simkernel::splitmix64(&mut st) % 14) as usize]).collect::<String>()
        };
        let (mut u, mut pw) = (gen(5), gen(7));
        // line breaks and blanks at the very end (a secret read from a file)
        match k % 8 {
            5 => pw.push('\n'),
            6 => u.push_str("\r\n"),
            7 => pw.push(' '),
            _ => {}
        }
        return Some((u, pw));
    }
    match k {
        0 => None,
        1 => Some(("user".into(), "secret".into())),
        2 => Some((String::new(), String::new())),
        3 => Some(("us:er".into(), "p:w".into())),
        4 => Some(("\u{fc}ser".into(), "p\u{e4}ssw\u{f6}rd\u{20ac}".into())),
        _ => Some(("u".into(), "x".repeat(300))),
    }
}

#[derive(Clone, Debug)]
struct CallSpec {
    op: usize,
    /// 0: Default value; 1: instance base; 2..: instance base with mutation subset `mutmask`
    variant: u64,
    mutmask: u64,
    status: usize,
    body_kind: usize,
    transport: usize,
    trunc: u64,
    splits: [u64; 3],
    latency: [u64; 3],
    cut: u64,
    /// 0..31: the status is STATUSES[status]; 32..63: one of WIDE_STATUSES (other 2xx, 4xx, 5xx codes)
    wide: u64,
    /// 0: the reply announces its Content-Length; 1: no length announced (chunked / close-delimited framing)
    framing: u64,
}

/// "every 4xx or 5xx status" / "2xx": codes beyond the nine listed ones (no 1xx/3xx; 205 has no body by definition)
const WIDE_STATUSES: [u16; 32] = [202, 203, 206, 207, 226, 299, 402, 405, 406, 408, 409, 410, 411, 413, 415, 418, 422, 425, 426, 428, 429, 431, 451, 499, 501, 502, 504, 505, 507, 510, 511, 599];

/// What a real server sends along: a throttling or failing server commonly says when to come back (seconds or a date),
/// a 201 names a location, a 401 a challenge. None of it changes what the statement demands (one POST, an error for
/// every 4xx/5xx), so the headers are a function of fields the call already has - tapes keep their meaning.
fn response_headers_of(c: &CallSpec, status: u16) -> Vec<(String, String)> {
    let mut h = vec![("Content-Type".to_string(), "text/xml; charset=utf-8".to_string()), ("Server".to_string(), "sim/1".to_string())];
    if status >= 400 || c.cut % 4 == 3 {
        let v = ["0", "1", "2", "Wed, 21 Oct 2026 07:28:00 GMT"][((c.cut / 4 + u64::from(status) / 100) % 4) as usize];
        h.push(("Retry-After".to_string(), v.to_string()));
    }
    match status {
        201 => h.push(("Location".to_string(), "http://other.invalid/created/1".to_string())),
        401 => h.push(("WWW-Authenticate".to_string(), "Basic realm=\"sim\"".to_string())),
        _ => {}
    }
    h
}

fn status_of(c: &CallSpec) -> u16 {
    if c.wide >= 32 {
        WIDE_STATUSES[(c.wide - 32) as usize % 32]
    } else {
        STATUSES[c.status]
    }
}

#[derive(Clone, Debug)]
struct Scenario {
    client: usize,
    creds: u64,
    /// sequential rounds on one service value; the calls of a round run concurrently
    rounds: Vec<Vec<CallSpec>>,
}

fn decode_call(ch: &mut Chooser, n_ops: usize) -> CallSpec {
    CallSpec {
        op: ch.choose("op", n_ops as u64) as usize,
        variant: ch.choose("request_variant", 3),
        mutmask: ch.choose("mutation_mask", 1024),
        status: ch.choose("status", 9) as usize,
        body_kind: ch.choose_wide("body", 8, BODY_KINDS.len() as u64) as usize,
        transport: ch.choose("transport", 6) as usize,
        trunc: ch.choose("truncate_at", 1 << 20),
        splits: [ch.choose("split", 1 << 16), ch.choose("split", 1 << 16), ch.choose("split", 1 << 16)],
        latency: [ch.choose("latency_us", 5000), ch.choose("latency_us", 5000), ch.choose("latency_us", 5000)],
        cut: ch.choose("cut_at", 1 << 20),
        wide: ch.choose("wide_status", 64),
        framing: ch.choose("framing_without_content_length", 2),
    }
}

fn decode_scenario(ch: &mut Chooser, infos: &[ClientInfo]) -> Scenario {
    let client = ch.choose("client", infos.len() as u64) as usize;
    let creds = ch.choose("credentials", N_CREDS);
    let n_rounds = 1 + ch.choose("sequential_rounds", 3) as usize;
    let mut rounds = Vec::new();
    for _ in 0..n_rounds {
        let n = 1 + ch.choose("concurrent_calls", 3) as usize;
        rounds.push((0..n).map(|_| decode_call(ch, infos[client].ops.len())).collect());
    }
    Scenario { client, creds, rounds }
}

fn call_values(c: &CallSpec) -> Vec<u64> {
    vec![c.op as u64, c.variant, c.mutmask, c.status as u64, c.body_kind as u64, c.transport as u64, c.trunc, c.splits[0], c.splits[1], c.splits[2], c.latency[0], c.latency[1], c.latency[2], c.cut, c.wide, c.framing]
}

fn encode_single(client: usize, creds: u64, c: &CallSpec) -> Vec<u64> {
    let mut v = vec![client as u64, creds, 0, 0];
    v.extend(call_values(c));
    v
}

/// three sequential single-call rounds
fn encode_triple(client: usize, creds: u64, a: &CallSpec, b: &CallSpec, c: &CallSpec) -> Vec<u64> {
    let mut v = vec![client as u64, creds, 2, 0];
    v.extend(call_values(a));
    v.push(0);
    v.extend(call_values(b));
    v.push(0);
    v.extend(call_values(c));
    v
}

/// two sequential single-call rounds (history of length 2 on one service value)
fn encode_pair(client: usize, creds: u64, a: &CallSpec, b: &CallSpec) -> Vec<u64> {
    let mut v = vec![client as u64, creds, 1, 0];
    v.extend(call_values(a));
    v.push(0);
    v.extend(call_values(b));
    v
}

// instances: {"<op>": {"request": "...", "response": "...", "mutations": [{"name","position","find","replace"}]}}
struct Instances {
    v: Value,
}
impl Instances {
    fn request(&self, op: &str, variant: u64, mask: u64) -> (Option<String>, Vec<String>) {
        if variant == 0 {
            return (None, vec![]);
        }
        let Some(base) = self.v.get(op).and_then(|o| o.get("request")).and_then(Value::as_str) else { return (None, vec![]) };
        let mut s = base.to_string();
        let mut applied = Vec::new();
        if variant >= 2 {
            if let Some(ms) = self.v[op].get("mutations").and_then(Value::as_array) {
                let mut mask = mask;
                if mask % (1 << ms.len().min(10)) == 0 {
                    mask = 1; // a "mutated" variant applies at least one mutation
                }
                for (i, m) in ms.iter().enumerate().take(10) {
                    // the two "large request" mutations (index 8, 9) are expensive: in mixed masks they apply to
                    // one mask in five; alone (a single-bit mask) always
                    let large = m["position"].as_str().is_some_and(|p| p.contains("large-request")) || m["replace"].as_str().is_some_and(|r| r.len() > 20_000);
                    if large && mask.count_ones() > 1 && mask % 5 != 0 {
                        continue;
                    }
                    if mask >> i & 1 == 1 {
                        if let (Some(f), Some(r)) = (m["find"].as_str(), m["replace"].as_str()) {
                            if s.contains(f) {
                                s = s.replacen(f, r, 1);
                                applied.push(m["position"].as_str().unwrap_or("?").to_string());
                            }
                        }
                    }
                }
            }
        }
        (Some(s), applied)
    }
    fn response(&self, op: &str, variant: u64) -> Option<String> {
        if variant == 0 {
            return None;
        }
        self.v.get(op).and_then(|o| o.get("response")).and_then(Value::as_str).map(str::to_string)
    }
}

/// The same infoset with other prefixes: every declared prefix p is renamed to q<i>.
fn reprefix(xml: &str) -> String {
    let mut prefixes: Vec<String> = Vec::new();
    let mut rest = xml;
    while let Some(i) = rest.find("xmlns:") {
        let tail = &rest[i + 6..];
        if let Some(eq) = tail.find('=') {
            let p = tail[..eq].to_string();
            if !p.is_empty() && p.chars().all(|c| c.is_ascii_alphanumeric() || c == '_') && !prefixes.contains(&p) {
                prefixes.push(p);
            }
        }
        rest = tail;
    }
    let mut out = xml.to_string();
    for (i, p) in prefixes.iter().enumerate() {
        let q = format!("q{i}x");
        out = out.replace(&format!("<{p}:"), &format!("<{q}:"));
        out = out.replace(&format!("</{p}:"), &format!("</{q}:"));
        out = out.replace(&format!("xmlns:{p}="), &format!("xmlns:{q}="));
        out = out.replace(&format!(" {p}:"), &format!(" {q}:"));
    }
    out
}

const FAULT: &str = "<?xml version=\"1.0\" encoding=\"utf-8\"?><soapenv:Envelope xmlns:soapenv=\"http://schemas.xmlsoap.org/soap/envelope/\"><soapenv:Body><soapenv:Fault><faultcode>soapenv:Server</faultcode><faultstring>internal error</faultstring></soapenv:Fault></soapenv:Body></soapenv:Envelope>";
const HTML: &str = "<html><head><title>502 Bad Gateway</title></head><body><h1>Bad Gateway</h1></body></html>";

fn creds_name(k: u64) -> String {
    if k < 6 {
        CREDS[k as usize].to_string()
    } else {
        format!("generated#{k}: {:?}", creds_of(k).unwrap())
    }
}

fn floor_char(s: &str, mut i: usize) -> usize {
    while i > 0 && !s.is_char_boundary(i) {
        i -= 1;
    }
    i
}

// ------------------------------------------------------------------------------------------------
// one simulated run + oracle N1..N5

#[derive(Clone, Debug)]
struct Finding {
    class: String,
    key: String,
    detail: String,
}

#[derive(Default, Clone)]
struct RunFacts {
    findings: Vec<Finding>,
    probes: Vec<String>,
    fired: Vec<String>,
    trace: Vec<String>,
    virtual_us: u64,
    steps: u64,
    nontrivial: bool,
    calls_json: Vec<Value>,
    skipped: Option<String>,
}

fn norm_url(u: &str) -> String {
    url::Url::parse(u).map_or_else(|_| u.to_string(), |x| x.as_str().to_string())
}

fn run_scenario(infos: &[ClientInfo], insts: &[Instances], sc: &Scenario, ch: &mut Chooser, property: &str) -> RunFacts {
    let mut facts = RunFacts::default();
    let info = &infos[sc.client];
    let creds = creds_of(sc.creds);
    let ctx = (info.make)(creds.clone());
    // scripts for all calls of all rounds (global call index = task id)
    let flat: Vec<&CallSpec> = sc.rounds.iter().flatten().collect();
    let mut scripts = Vec::new();
    let mut preps = Vec::new();
    let mut metas = Vec::new();
    let mut all_results: Vec<Option<CallResult>> = Vec::new();
    let mut quiet: Vec<u64> = Vec::new();
    let total = flat.len();
    for c in &flat {
        let opname = info.ops[c.op];
        let (req_xml, positions) = insts[sc.client].request(opname, c.variant, c.mutmask);
        let resp_xml = insts[sc.client].response(opname, c.variant);
        let fill_request = c.variant >= 1 && req_xml.is_none();
        let p = ctx.start(c.op, &PrepArgs { req_xml, resp_xml, fill_request });
        if let Some(why) = &p.unusable {
            facts.skipped = Some(format!("{}::{opname}: {why}", info.name));
            return facts;
        }
        // response body for this call
        let exact = p.exact_response.clone();
        let body: String = match c.body_kind {
            0 => exact.clone(),
            1 => reprefix(&exact),
            2 => String::new(),
            3 => "Service Unavailable: upstream timed out".to_string(),
            4 => {
                // the top 16 values cut 1..16 bytes off the end (a reply missing only its final `>`), the rest anywhere
                let t = if c.trunc >= (1 << 20) - 16 { exact.len().saturating_sub(1 + ((1 << 20) - 1 - c.trunc) as usize).max(1) } else { 1 + (c.trunc as usize) % exact.len().saturating_sub(1).max(1) };
                exact[..floor_char(&exact, t.min(exact.len().saturating_sub(1)))].to_string()
            }
            5 | 7 => FAULT.to_string(),
            8 => format!("{}{exact}", PREAMBLES[(c.trunc % PREAMBLES.len() as u64) as usize]),
            _ => HTML.to_string(),
        };
        let transport = match c.transport {
            0 | 4 => Transport::Ok,
            1 => Transport::Refused,
            2 => Transport::ClosedBeforeHead,
            3 => Transport::ClosedMidBody,
            _ => Transport::ClosedAfterBody,
        };
        let splits: Vec<usize> = if c.transport == 4 && body.len() > 1 { c.splits.iter().map(|s| 1 + (*s as usize) % (body.len() - 1)).collect() } else { vec![] };
        scripts.push(Script {
            status: status_of(c),
            body: body.clone().into_bytes(),
            transport,
            splits,
            cut_at: if body.is_empty() { 0 } else { (c.cut as usize) % body.len() },
            latency: c.latency,
            announce_length: c.framing == 0,
            headers: response_headers_of(c, status_of(c)),
        });
        metas.push((opname, positions, body, exact));
        preps.push(p);
    }
    sim::reset(scripts);
    // N2 (invariant at every step): no call has ever produced more than one connection attempt
    let mut invariant = || -> Result<(), String> {
        let mut per = vec![0u32; total];
        for (t, _) in sim::requests() {
            if t < total {
                per[t] += 1;
                if per[t] > 1 {
                    return Err(format!("call {t} opened a second connection"));
                }
            }
        }
        Ok(())
    };
    let mut chooser = |l: &'static str, k: u64| ch.choose(l, k);
    let mut broken = None;
    let mut base = 0usize;
    let mut steps = 0u64;
    let (mut deadlocked, mut cap_hit) = (false, false);
    for round in &sc.rounds {
        let mut tasks: Vec<sim::Task<CallResult>> = Vec::new();
        for i in 0..round.len() {
            tasks.push(preps[base + i].fut.take().unwrap());
        }
        let (outcome, b) = sim::run_round(tasks, base, &mut chooser, 10_000, &mut invariant);
        steps += outcome.steps;
        deadlocked |= outcome.deadlocked;
        cap_hit |= outcome.hit_step_cap;
        all_results.extend(outcome.results);
        quiet.extend(outcome.steps_after_last_event);
        base += round.len();
        if b.is_some() {
            broken = b;
            break;
        }
    }
    while all_results.len() < total {
        all_results.push(None);
        quiet.push(0);
    }
    struct Out {
        results: Vec<Option<CallResult>>,
        steps: u64,
        deadlocked: bool,
        hit_step_cap: bool,
        steps_after_last_event: Vec<u64>,
    }
    let outcome = Out { results: all_results, steps, deadlocked, hit_step_cap: cap_hit, steps_after_last_event: quiet };
    let n = total;
    let _ = n;
    let hist = sim::history();
    let reqs = sim::requests();
    facts.virtual_us = sim::now_us();
    facts.steps = outcome.steps;
    facts.trace = hist.iter().map(|r| format!("#{} t={}us call{} {:?}", r.seq, r.time_us, r.task, r.kind)).collect();
    if let Some(b) = broken {
        // the run was stopped at the step that broke the invariant: nothing after it is judged
        if property == "C16" {
            let t = b.split_whitespace().nth(1).and_then(|x| x.parse::<usize>().ok()).unwrap_or(0);
            let tr = flat.get(t).map_or("?", |c| TRANSPORTS[c.transport]);
            facts.findings.push(Finding { class: "more-than-one-post".into(), key: format!("more-than-one-post:after-{tr}"), detail: format!("{}: {b} (transport script of that call: {tr})", info.name) });
        }
        return facts;
    }
    let want_url = norm_url(info.wsdl_location);
    for (i, c) in flat.iter().enumerate() {
        let (opname, positions, body, exact) = &metas[i];
        let p = &preps[i];
        let my_reqs: Vec<&sim::Request> = reqs.iter().filter(|(t, _)| *t == i).map(|(_, r)| r).collect();
        let connects = hist.iter().filter(|r| r.task == i && r.kind == EvKind::ConnectAttempt).count();
        let result = outcome.results[i].clone();
        let status = status_of(c);
        let id = format!("{}::{}", info.name, opname);
        let restricted = p.twin_check.is_err() || p.parts_check.is_err();
        let is_free = opname.starts_with("fn:");
        if is_free {
            facts.probes.push("free_standing_function_calls".into());
        }
        if p.twin_check.is_ok() && p.parts_check.is_err() && property == "C07" {
            facts.findings.push(Finding { class: "envelope-check-ignores-part".into(), key: "envelope-check-ignores-part".into(), detail: format!("{id}: check_restrictions on the envelope passes although the check of its own header/body part fails ({})", p.parts_check.clone().unwrap_err()) });
        }
        let why_restricted = p.twin_check.clone().err().or(p.parts_check.clone().err()).unwrap_or_default();
        facts.calls_json.push(json!({"op": id, "request_variant": c.variant, "mutated_positions": positions, "twin_check": p.twin_check.clone().err(), "status": status, "body": BODY_KINDS[c.body_kind], "transport": TRANSPORTS[c.transport], "content_length_announced": c.framing == 0, "credentials": creds_name(sc.creds), "connections": connects, "response_body": body.chars().take(700).collect::<String>(), "response_body_full": if property == "calib" { Value::Null } else { Value::from(body.clone()) }, "result_class": match &result { Some(CallResult::Value(_)) => "value".to_string(), Some(CallResult::Error { variant, .. }) => (*variant).to_string(), None => "pending".to_string() }, "result": match &result { Some(CallResult::Value(_)) => "Ok(value)".to_string(), Some(CallResult::Error { variant, text }) => format!("Err({variant}: {})", text.chars().take(80).collect::<String>()), None => "not completed".to_string() }}));

        // N4: bounded progress / completion
        if result.is_none() {
            facts.findings.push(Finding { class: "call-never-completes".into(), key: format!("call-never-completes:{}", TRANSPORTS[c.transport]), detail: format!("{id}: future still pending after {} executor steps (deadlocked: {}, step cap hit: {})", outcome.steps, outcome.deadlocked, outcome.hit_step_cap) });
            continue;
        }
        if outcome.steps_after_last_event[i] > 50 {
            facts.findings.push(Finding { class: "slow-completion".into(), key: "slow-completion".into(), detail: format!("{id}: {} steps after its last network event", outcome.steps_after_last_event[i]) });
        }
        let result = result.unwrap();

        if restricted {
            facts.probes.push("restriction_failed_calls".into());
            for pos in positions {
                facts.probes.push(format!("violating_position:{pos}"));
            }
            // N5 (C07 sentence 2): restriction error, and nothing at all on the wire for this call
            let wire = hist.iter().filter(|r| r.task == i && !matches!(r.kind, EvKind::TaskCompleted | EvKind::TimerSet(_) | EvKind::TimerFired)).count();
            let is_restr = matches!(&result, CallResult::Error { variant: "Restriction", .. });
            if property == "C07" {
                if wire > 0 {
                    facts.findings.push(Finding { class: "io-before-restriction-check".into(), key: format!("io-before-restriction-check:{}", if is_restr { "error-returned-after-io" } else { "request-sent" }), detail: format!("{id}: the request violates its restrictions ({}) but {wire} transport event(s) were recorded for the call; result {:?}", why_restricted, result) });
                } else if !is_restr {
                    facts.findings.push(Finding { class: "restriction-not-reported".into(), key: "restriction-not-reported".into(), detail: format!("{id}: the request violates its restrictions ({}) but the call returned {:?}", why_restricted, result) });
                }
            }
            continue;
        }
        facts.probes.push("restriction_passed_calls".into());
        if property != "C16" {
            continue;
        }
        // N1: exactly one POST, to the WSDL's address, carrying the serialized request, credentials iff configured
        if connects != 1 || my_reqs.len() != 1 {
            facts.findings.push(Finding { class: "post-count".into(), key: format!("post-count:{}", connects.min(2)), detail: format!("{id}: {connects} connection attempts for one call (status {status}, body {}, transport {})", BODY_KINDS[c.body_kind], TRANSPORTS[c.transport]) });
            continue;
        }
        let r = my_reqs[0];
        if r.method != "POST" {
            facts.findings.push(Finding { class: "wrong-method".into(), key: "wrong-method".into(), detail: format!("{id}: method {}", r.method) });
        }
        if is_free {
            facts.probes.push(if norm_url(&r.url) == want_url { "free_function_posts_to_port_address".into() } else { "free_function_posts_to_soap_action(not gated: C05 territory)".into() });
        } else if norm_url(&r.url) != want_url {
            facts.findings.push(Finding { class: "wrong-url".into(), key: format!("wrong-url:{}", info.name), detail: format!("{id}: posted to {} but the WSDL port address is {}", r.url, info.wsdl_location) });
        }
        if r.body != p.expected_body {
            facts.findings.push(Finding { class: "wrong-request-body".into(), key: format!("wrong-request-body:{}", info.name), detail: format!("{id}: request body differs from yaserde::ser::to_string(request): {} vs {} bytes", r.body.len(), p.expected_body.len()) });
        }
        match (&creds_of(sc.creds), &r.auth) {
            (None, None) => {}
            (Some((u, pw)), Some((ru, rp))) if u == ru && Some(pw) == rp.as_ref() => {
                facts.probes.push("basic_auth_sent".into());
            }
            (want, got) => facts.findings.push(Finding { class: "wrong-credentials".into(), key: format!("wrong-credentials:{}", if want.is_none() { "sent-unconfigured" } else if got.is_none() { "configured-not-sent" } else { "altered" }), detail: format!("{id}: configured {:?}, sent {:?}", want.as_ref().map(|c| (&c.0, c.1.len())), got.as_ref().map(|c| (&c.0, c.1.as_ref().map(String::len)))) }),
        }
        // N3: result dichotomy
        let delivered_full = matches!(c.transport, 0 | 4) || (c.transport == 5 && c.framing == 1);
        let status_ok = (200..300).contains(&status) && status != 204 && status != 205;
        let gated_ok = delivered_full && status_ok && matches!(c.body_kind, 0 | 1);
        let gated_err = !delivered_full || (400..600).contains(&status) || matches!(c.body_kind, 2 | 3 | 4 | 8) || status == 204;
        match &result {
            CallResult::Value(dbg) => {
                facts.probes.push("calls_returning_value".into());
                let direct_exact = (p.parse_out)(exact);
                if gated_err {
                    let why = if !delivered_full { format!("transport={}", TRANSPORTS[c.transport]) } else if (400..600).contains(&status) { format!("status={status}") } else { format!("body={}", BODY_KINDS[c.body_kind]) };
                    facts.findings.push(Finding { class: "value-for-failed-exchange".into(), key: format!("value-for-failed-exchange:{why}"), detail: format!("{id}: returned Ok(..) although status {status}, body {}, transport {} (body text: {:?})", BODY_KINDS[c.body_kind], TRANSPORTS[c.transport], body.chars().take(120).collect::<String>()) });
                } else if gated_ok {
                    // reference model: the emitted response type applied directly to the delivered text
                    let direct = (p.parse_out)(body);
                    if direct.as_ref() != Ok(dbg) {
                        facts.findings.push(Finding { class: "wrong-value".into(), key: format!("wrong-value:{}", BODY_KINDS[c.body_kind]), detail: format!("{id}: the returned value differs from the deserialized response envelope: {:?} vs {:?}", dbg.chars().take(200).collect::<String>(), direct.map(|d| d.chars().take(200).collect::<String>())) });
                    }
                    if c.body_kind == 1 {
                        facts.probes.push(if direct_exact.as_ref() == Ok(dbg) { "reprefixed_envelope_yields_same_value".into() } else { "reprefixed_envelope_yields_other_value(C04 territory, not gated)".into() });
                    }
                } else {
                    facts.probes.push(format!("value_returned_for_{}", BODY_KINDS[c.body_kind]));
                }
            }
            CallResult::Error { variant, .. } => {
                facts.probes.push(format!("error_variant:{variant}"));
                if gated_ok {
                    // the exchange succeeded and the body is the envelope: must be a value – unless the emitted
                    // deserializer itself cannot read its own serialization (C04 territory: recorded, not gated)
                    if (p.parse_out)(body).is_err() {
                        facts.probes.push(format!("{}_body_not_parsable_by_emitted_type(C04 territory, not gated)", BODY_KINDS[c.body_kind]));
                        facts.probes.push(format!("unparsable_own_serialization:{id}"));
                    } else {
                        facts.findings.push(Finding { class: "error-for-successful-exchange".into(), key: format!("error-for-successful-exchange:{}:{variant}", BODY_KINDS[c.body_kind]), detail: format!("{id}: returned Err({variant}) although status {status}, body {} was delivered completely", BODY_KINDS[c.body_kind]) });
                    }
                }
            }
        }
        if !(status == 200 && c.body_kind == 0 && c.transport == 0) {
            facts.nontrivial = true;
        }
        for k in [format!("status:{status}"), format!("body:{}", BODY_KINDS[c.body_kind]), format!("transport:{}", TRANSPORTS[c.transport])] {
            facts.fired.push(k);
        }
    }
    for r in &sc.rounds {
        if r.len() > 1 {
            facts.probes.push(format!("concurrent_calls:{}", r.len()));
        }
    }
    if sc.rounds.len() > 1 {
        facts.probes.push(format!("sequential_rounds:{}", sc.rounds.len()));
    }
    facts
}

// ------------------------------------------------------------------------------------------------

#[derive(Default)]
struct Stats {
    runs: u64,
    calls: u64,
    fired: BTreeMap<String, u64>,
    probes: BTreeMap<String, u64>,
    signatures: HashSet<u64>,
    interleavings: HashSet<u64>,
    found: Vec<(Vec<u64>, Finding)>,
    samples: Vec<Value>,
    skipped: BTreeMap<String, u64>,
    virtual_us: u64,
    digest: u64,
}

fn run_batch(infos_fn: fn() -> Vec<ClientInfo>, tapes: &[Vec<u64>], property: &'static str, isolate_every: usize) -> Stats {
    let next = AtomicUsize::new(0);
    let out = Mutex::new(Stats::default());
    std::thread::scope(|s| {
        for _ in 0..simkernel::workers() {
            s.spawn(|| {
                let infos = infos_fn();
                let insts: Vec<Instances> = infos.iter().map(|i| Instances { v: simkernel::serde_json::from_str(i.instances_json).unwrap_or(Value::Null) }).collect();
                let mut st = Stats::default();
                loop {
                    let i = next.fetch_add(1, Ordering::Relaxed);
                    if i >= tapes.len() {
                        break;
                    }
                                        // enumerated multi-round histories and every `isolate_every`-th run execute in a fresh thread (no
                    // thread-local state can leak in); the bulk runs on the worker thread
                    let multi_round_enumerated = tapes[i].get(2).copied().unwrap_or(0) > 0 && tapes[i].len() < 64;
                    let (facts, ch, sc) = if multi_round_enumerated || (isolate_every > 0 && i % isolate_every == 0) { run_isolated(&infos, &insts, &tapes[i], property) } else { run_inline(&infos, &insts, &tapes[i], property) };
                    if multi_round_enumerated || (isolate_every > 0 && i % isolate_every == 0) {
                        *st.probes.entry("runs_in_fresh_thread".into()).or_insert(0) += 1;
                    }
                    st.runs += 1;
                    st.calls += sc.rounds.iter().map(Vec::len).sum::<usize>() as u64;
                    st.virtual_us += facts.virtual_us;
                    if let Some(s) = &facts.skipped {
                        *st.skipped.entry(s.clone()).or_insert(0) += 1;
                    }
                    for k in &facts.fired {
                        *st.fired.entry(k.clone()).or_insert(0) += 1;
                    }
                    for k in &facts.probes {
                        *st.probes.entry(k.clone()).or_insert(0) += 1;
                    }
                    let mut sig = 0u64;
                    for v in &tapes[i] {
                        sig = sig.rotate_left(11) ^ v.wrapping_mul(0x9e37_79b9_7f4a_7c15);
                    }
                    if facts.nontrivial || facts.probes.iter().any(|p| p == "restriction_failed_calls") {
                        st.signatures.insert(sig);
                    }
                    let mut d = i as u64;
                    let mut il = 0u64;
                    for l in &facts.trace {
                        d = d.rotate_left(5) ^ simkernel::fnv(l);
                        il = il.rotate_left(3) ^ simkernel::fnv(l.split(' ').skip(2).collect::<Vec<_>>().join(" ").as_str());
                    }
                    st.interleavings.insert(il);
                    let mut t = d;
                    st.digest = st.digest.wrapping_add(simkernel::splitmix64(&mut t));
                    if i % (tapes.len() / 6 + 1) == 0 && st.samples.len() < 6 {
                        st.samples.push(json!({"tape": ch.tape_json(), "client": infos[sc.client].name, "calls": facts.calls_json, "history": facts.trace}));
                    }
                    for f in facts.findings {
                        if st.found.len() < 3000 {
                            st.found.push((tapes[i].clone(), f));
                        }
                    }
                }
                let mut g = out.lock().unwrap();
                g.runs += st.runs;
                g.calls += st.calls;
                g.virtual_us += st.virtual_us;
                for (k, v) in st.fired {
                    *g.fired.entry(k).or_insert(0) += v;
                }
                for (k, v) in st.probes {
                    *g.probes.entry(k).or_insert(0) += v;
                }
                for (k, v) in st.skipped {
                    *g.skipped.entry(k).or_insert(0) += v;
                }
                g.signatures.extend(st.signatures);
                g.interleavings.extend(st.interleavings);
                g.found.extend(st.found);
                g.samples.extend(st.samples);
                g.samples.truncate(8);
                g.digest = g.digest.wrapping_add(st.digest);
            });
        }
    });
    out.into_inner().unwrap()
}

/// Runs one tape in a freshly spawned thread, so that thread-local state which emitted code might keep cannot leak
/// from one run into the next: a run is a function of its tape alone (process-wide statics are the exception; see
/// the context-dependent replay in main).
fn run_isolated(infos: &[ClientInfo], insts: &[Instances], tape: &[u64], property: &str) -> (RunFacts, Chooser, Scenario) {
    let r = std::thread::scope(|s| {
        std::thread::Builder::new()
            .stack_size(1 << 20)
            .spawn_scoped(s, || {
                let mut ch = Chooser::replay(tape.to_vec());
                let sc = decode_scenario(&mut ch, infos);
                let facts = run_scenario(infos, insts, &sc, &mut ch, property);
                (facts, ch, sc)
            })
            .expect("spawn")
            .join()
    });
    match r {
        Ok(x) => x,
        Err(e) => {
            let msg = e.downcast_ref::<String>().cloned().or(e.downcast_ref::<&str>().map(|s| (*s).to_string())).unwrap_or_default();
            let mut ch = Chooser::replay(tape.to_vec());
            let sc = decode_scenario(&mut ch, infos);
            let mut facts = RunFacts::default();
            facts.findings.push(Finding { class: "client-panicked".into(), key: "client-panicked".into(), detail: format!("the generated client (or its driver) panicked: {msg}") });
            (facts, ch, sc)
        }
    }
}

/// Same, on the calling thread (bulk runs: creating a thread costs ~1 ms here, 20x the run itself).
fn run_inline(infos: &[ClientInfo], insts: &[Instances], tape: &[u64], property: &str) -> (RunFacts, Chooser, Scenario) {
    let r = std::panic::catch_unwind(std::panic::AssertUnwindSafe(|| {
        let mut ch = Chooser::replay(tape.to_vec());
        let sc = decode_scenario(&mut ch, infos);
        let facts = run_scenario(infos, insts, &sc, &mut ch, property);
        (facts, ch, sc)
    }));
    match r {
        Ok(x) => x,
        Err(e) => {
            let msg = e.downcast_ref::<String>().cloned().or(e.downcast_ref::<&str>().map(|s| (*s).to_string())).unwrap_or_default();
            let mut ch = Chooser::replay(tape.to_vec());
            let sc = decode_scenario(&mut ch, infos);
            let mut facts = RunFacts::default();
            facts.findings.push(Finding { class: "client-panicked".into(), key: "client-panicked".into(), detail: format!("the generated client (or its driver) panicked: {msg}") });
            (facts, ch, sc)
        }
    }
}

/// Does `tape` show `key` when it is the first thing a new process runs? (process-wide statics in emitted code cannot
/// be reset in-process, so reproduction is established in a fresh process)
fn reproduces_in_fresh_process(property: &str, tape: &[u64], key: &str) -> bool {
    use std::sync::atomic::{AtomicU64, Ordering};
    static N: AtomicU64 = AtomicU64::new(0);
    let f = simkernel::scratch_root().join(format!("probe-{}-{}.json", std::process::id(), N.fetch_add(1, Ordering::Relaxed)));
    let _ = std::fs::write(&f, json!({"tape": tape, "key": key}).to_string());
    let st = std::process::Command::new(std::env::current_exe().unwrap()).arg(property).arg("--probe").arg(&f).status();
    let _ = std::fs::remove_file(&f);
    matches!(st, Ok(s) if s.code() == Some(1))
}

fn build_tapes(infos: &[ClientInfo], property: &str, tier: &str, seed: u64) -> (Vec<Vec<u64>>, Value) {
    let thorough = tier == "thorough";
    let mut tapes = Vec::new();
    let mut n_enum = 0u64;
    let mut n_preamble = 0u64;
    let base = CallSpec { op: 0, variant: 0, mutmask: 0, status: 0, body_kind: 0, transport: 0, trunc: 0, splits: [0; 3], latency: [0; 3], cut: 0, wide: 0, framing: 0 };
    if property == "C16" {
        // the script product, one call at a time, for every operation of every client
        for (ci, info) in infos.iter().enumerate() {
            for op in 0..info.ops.len() {
                for variant in 0..2u64 {
                    for status in 0..9 {
                        for body in 0..8 {
                            for transport in 0..6 {
                                for creds in [0u64, 1, 3] {
                                    if !thorough && variant == 1 && (status + body + transport) % 2 == 1 {
                                        continue;
                                    }
                                    let mut c = base.clone();
                                    c.op = op;
                                    c.variant = variant;
                                    c.status = status;
                                    c.body_kind = body;
                                    c.transport = transport;
                                    let mut rng = Rng::derive(seed, "net-enum", n_enum);
                                    c.trunc = rng.below(1 << 20);
                                    c.cut = rng.below(1 << 20);
                                    c.splits = [rng.below(1 << 16), rng.below(1 << 16), rng.below(1 << 16)];
                                    tapes.push(encode_single(ci, creds, &c));
                                    n_enum += 1;
                                }
                            }
                        }
                    }
                }
                // text in front of the complete envelope (enumerated only: the seeded mixes keep drawing the first 8 kinds)
                for pre in 0..PREAMBLES.len() as u64 {
                    for (status, transport, variant, framing) in [(0usize, 0usize, 0u64, 0u64), (0, 4, 1, 0), (1, 0, 1, 1), (1, 4, 0, 0), (0, 0, 1, 1)] {
                        let mut c = base.clone();
                        c.op = op;
                        c.body_kind = 8;
                        c.status = status;
                        c.transport = transport;
                        c.variant = variant;
                        c.framing = framing;
                        c.trunc = pre;
                        c.splits = [3 + pre, 40 + pre * 7, 90];
                        tapes.push(encode_single(ci, pre % 2, &c));
                        n_preamble += 1; // (not n_enum: that counter also indexes the derived random fields of the product)
                    }
                }
                // truncation at boundaries + seeded offsets; adversarial credentials
                for t in 0..(if thorough { 400 } else { 36 }) {
                    let mut c = base.clone();
                    c.op = op;
                    c.body_kind = 4;
                    c.variant = t % 2;
                    c.trunc = if t < 4 { t } else if t < 20 { (1 << 20) - 1 - (t - 4) } else { Rng::derive(seed, "net-trunc", t + ((op as u64) << 10)).below(1 << 20) };
                    tapes.push(encode_single(ci, 0, &c));
                    n_enum += 1;
                }
                for status in 0..9 {
                    for body in 0..8 {
                        for transport in [0usize, 4, 3, 5] {
                            if !thorough && (status + body + transport) % 2 == 1 {
                                continue;
                            }
                            let mut c = base.clone();
                            c.op = op;
                            c.variant = 1;
                            c.status = status;
                            c.body_kind = body;
                            c.transport = transport;
                            c.framing = 1;
                            c.splits = [7, 90, 300];
                            c.cut = 40;
                            tapes.push(encode_single(ci, 0, &c));
                            n_enum += 1;
                        }
                    }
                }
                for w in 32..64u64 {
                    for body in [0usize, 2] {
                        if !thorough && (w + op as u64) % 2 == 1 {
                            continue;
                        }
                        let mut c = base.clone();
                        c.op = op;
                        c.variant = 1;
                        c.wide = w;
                        c.body_kind = body;
                        tapes.push(encode_single(ci, 0, &c));
                        n_enum += 1;
                    }
                }
                for creds in (2..6u64).chain(if op == 0 { 6..N_CREDS } else { 6..14 }) {
                    let mut c = base.clone();
                    c.op = op;
                    c.variant = 1;
                    tapes.push(encode_single(ci, creds, &c));
                    n_enum += 1;
                }
            }
        }
    } else {
        // C07: every mutation subset of every operation's instance, under a few server scripts
        for (ci, info) in infos.iter().enumerate() {
            for op in 0..info.ops.len() {
                for mask in (0..(if thorough { 256 } else { 64 })).chain([256, 512, 768]) {
                    for (status, body, transport) in [(0usize, 0usize, 0usize), (7, 5, 0), (0, 0, 1), (0, 0, 4)] {
                        let mut c = base.clone();
                        c.op = op;
                        c.variant = 2;
                        c.mutmask = mask;
                        c.status = status;
                        c.body_kind = body;
                        c.transport = transport;
                        tapes.push(encode_single(ci, mask % 2, &c));
                        n_enum += 1;
                    }
                }
            }
        }
    }
    // histories of two sequential calls on one service value (state left behind by the first call)
    let mut n_pairs = 0u64;
    for (ci, info) in infos.iter().enumerate() {
        for op in 0..info.ops.len() {
            let op2 = (op + 1) % info.ops.len();
            // (variant, mutmask, status, body, transport)
            let shapes: [(u64, u64, usize, usize, usize); 6] = [(1, 0, 0, 0, 0), (2, 1, 0, 0, 0), (1, 0, 7, 5, 0), (1, 0, 0, 0, 1), (1, 0, 0, 2, 0), (2, 2, 3, 0, 2)];
            for (ai, a) in shapes.iter().enumerate() {
                for (bi, b) in shapes.iter().enumerate() {
                    for second_op in [op, op2] {
                        if !thorough && second_op != op && (ai + bi) % 2 == 1 {
                            continue;
                        }
                        let mk = |o: usize, sh: &(u64, u64, usize, usize, usize)| {
                            let mut c = base.clone();
                            c.op = o;
                            c.variant = sh.0;
                            c.mutmask = sh.1;
                            c.status = sh.2;
                            c.body_kind = sh.3;
                            c.transport = sh.4;
                            c
                        };
                        tapes.push(encode_pair(ci, ((ai + bi) % 2) as u64, &mk(op, a), &mk(second_op, b)));
                        n_pairs += 1;
                    }
                }
            }
        }
    }
    // histories of three calls: the third call after two good ones, after an HTTP error, after a transport failure
    for (ci, info) in infos.iter().enumerate() {
        for op in 0..info.ops.len() {
            let mk = |variant: u64, mask: u64, status: usize, body: usize, transport: usize| {
                let mut c = base.clone();
                c.op = op;
                c.variant = variant;
                c.mutmask = mask;
                c.status = status;
                c.body_kind = body;
                c.transport = transport;
                c
            };
            let good = mk(1, 0, 0, 0, 0);
            for second in [mk(1, 0, 0, 0, 0), mk(1, 0, 7, 5, 0), mk(1, 0, 0, 0, 2), mk(2, 1, 0, 0, 0)] {
                for third in [mk(2, 1, 0, 0, 0), mk(2, 4, 0, 0, 0), mk(1, 0, 2, 2, 0), mk(1, 0, 8, 2, 0), mk(1, 0, 0, 0, 0)] {
                    for creds in [0u64, 1] {
                        tapes.push(encode_triple(ci, creds, &good, &second, &third));
                        n_pairs += 1;
                    }
                }
            }
        }
    }
    n_enum += n_pairs;
    // seeded: 1..3 rounds of 1..3 concurrent calls, interleavings, chunkings, latencies, all truncation offsets
    let n_seeded = if thorough { 2_500_000 } else { 40_000 };
    for r in 0..n_seeded {
        let mut ch = Chooser::explore(Rng::derive(seed, if property == "C16" { "net-seeded" } else { "net-seeded-c07" }, r));
        let _ = decode_scenario(&mut ch, infos);
        let mut v = ch.values();
        // schedule choices are drawn while running; give the replay tape its own seeded tail
        let mut rng = Rng::derive(seed, "net-sched", r);
        for _ in 0..160 {
            v.push(rng.below(4));
        }
        if property == "C07" {
            // bias towards mutated instances
            if let Some(x) = v.get_mut(5) {
                *x = 2;
            }
        }
        tapes.push(v);
    }
    (tapes, json!({"enumerated_single_call_scripts": n_enum + n_preamble, "of_which_text_before_envelope": n_preamble, "seeded_runs": n_seeded, "note_status": "599, 499, 299 are the class boundaries", "dimensions": {"status": STATUSES, "further_statuses": WIDE_STATUSES, "body": BODY_KINDS, "transport": TRANSPORTS, "credentials": CREDS}}))
}

fn main() {
    let args: Vec<String> = std::env::args().collect();
    let property: &'static str = if args.get(1).map(String::as_str) == Some("C07") { "C07" } else { "C16" };
    let rest: Vec<String> = args.iter().skip(2).cloned().collect();
    let mut tier = std::env::var("VERIF_TIER").unwrap_or_else(|_| "quick".into());
    let mut replay = None;
    let mut i = 0;
    while i < rest.len() {
        match rest[i].as_str() {
            "quick" | "thorough" => tier = rest[i].clone(),
            "--replay" => {
                i += 1;
                replay = rest.get(i).cloned();
            }
            _ => {}
        }
        i += 1;
    }
    if args.get(1).map(String::as_str) == Some("calibrate-dump") {
        // predictions of the stub for one client/operation, one line of JSON per script: used by sim/calib
        let infos = clients::all();
        let insts: Vec<Instances> = infos.iter().map(|i| Instances { v: simkernel::serde_json::from_str(i.instances_json).unwrap_or(Value::Null) }).collect();
        let want = args.get(2).cloned().unwrap_or_else(|| "hello".into());
        let Some(ci) = infos.iter().position(|i| i.name == want) else {
            eprintln!("no client {want}");
            std::process::exit(2);
        };
        let base = CallSpec { op: 0, variant: 1, mutmask: 0, status: 0, body_kind: 0, transport: 0, trunc: 40, splits: [5, 60, 120], latency: [0; 3], cut: 30, wide: 0, framing: 0 };
        let mut out = Vec::new();
        for status in 0..9 {
            for body in 0..8 {
                for transport in 0..6 {
                    for creds in [0u64, 1, 2] {
                        let mut c = base.clone();
                        c.status = status;
                        c.body_kind = body;
                        c.transport = transport;
                        // the third pass repeats the script without an announced Content-Length
                        c.framing = u64::from(creds == 2);
                        let creds = creds % 2;
                        let tape = encode_single(ci, creds, &c);
                        let (facts, _, _) = run_inline(&infos, &insts, &tape, "C16"); // same thread: sim::requests() below
                        let call = &facts.calls_json[0];
                        let reqs = sim::requests();
                        out.push(json!({"status": STATUSES[status], "body_kind": BODY_KINDS[body], "transport": TRANSPORTS[transport], "announce_length": c.framing == 0, "credentials": creds_of(creds),
                            "response_body": call["response_body_full"], "cut_at": 30, "splits": [5, 60, 120],
                            "request_xml": insts[ci].request(infos[ci].ops[0], 1, 0).0,
                            "stub_result": call["result_class"], "stub_connections": call["connections"],
                            "stub_request_body": reqs.first().map(|r| r.1.body.clone()), "stub_auth": reqs.first().and_then(|r| r.1.auth.clone())}));
                    }
                }
            }
        }
        println!("{}", Value::from(out));
        return;
    }
    let infos = clients::all();
    if infos.is_empty() {
        eprintln!("HARNESS-ERROR: no client was generated");
        std::process::exit(2);
    }
    let insts: Vec<Instances> = infos.iter().map(|i| Instances { v: simkernel::serde_json::from_str(i.instances_json).unwrap_or(Value::Null) }).collect();

    if let Some(i) = rest.iter().position(|a| a == "--probe") {
        // fresh-process oracle used while minimising: does this tape, run first in a new process, show this key?
        let text = std::fs::read_to_string(&rest[i + 1]).unwrap_or_default();
        let v: Value = simkernel::serde_json::from_str(&text).unwrap_or(Value::Null);
        let tape = simkernel::tape_values_from_json(&v["tape"]);
        let key = v["key"].as_str().unwrap_or("");
        let hit = run_isolated(&infos, &insts, &tape, property).0.findings.iter().any(|x| x.key == key);
        std::process::exit(i32::from(hit));
    }
    if let Some(path) = replay {
        let v = match simkernel::load_replay(std::path::Path::new(&path)) {
            Ok(v) => v,
            Err(e) => {
                eprintln!("HARNESS-ERROR: {e}");
                std::process::exit(2);
            }
        };
        if v["scenario"]["context_dependent"].as_bool() == Some(true) {
            let btier = v["scenario"]["batch"]["tier"].as_str().unwrap_or("quick").to_string();
            let bseed = v["scenario"]["batch"]["seed"].as_u64().unwrap_or(simkernel::DEFAULT_SEED);
            let (tapes, _) = build_tapes(&infos, property, &btier, bseed);
            let stats = run_batch(clients::all, &tapes, property, 16);
            let want = v["key"].as_str().unwrap_or("");
            if let Some((_, f)) = stats.found.iter().find(|(_, f)| f.key == want) {
                println!("REPLAY property={property} class={} key={} :: {} (batch re-run, seed {bseed}, tier {btier})", f.class, f.key, f.detail);
                println!("REPLAY-REPRODUCED");
                println!("VIOLATION property={property} replay={path}");
                std::process::exit(1);
            }
            println!("REPLAY property={property} no violation with this key in the re-run batch");
            std::process::exit(0);
        }
        let tape = simkernel::tape_values_from_json(&v["tape"]);
        let (facts, _ch, _sc) = run_isolated(&infos, &insts, &tape, property);
        for l in &facts.trace {
            println!("REPLAY history {l}");
        }
        println!("REPLAY calls {}", Value::from(facts.calls_json.clone()));
        let want = v["key"].as_str().unwrap_or("");
        if let Some(f) = facts.findings.iter().find(|f| f.key == want).or(facts.findings.first()) {
            println!("REPLAY property={property} class={} key={} :: {}", f.class, f.key, f.detail);
            println!("REPLAY-{}", if f.key == want { "REPRODUCED" } else { "DIFFERENT-VIOLATION" });
            println!("VIOLATION property={property} replay={path}");
            std::process::exit(1);
        }
        println!("REPLAY property={property} no violation");
        std::process::exit(0);
    }

    let level = if property == "C16" { "fault_enumeration" } else { "exploration" };
    let mut report = Report::new(property, "net", &tier, level);
    let (tapes, product) = build_tapes(&infos, property, &tier, report.seed);
    let stats = run_batch(clients::all, &tapes, property, 16);

    // reach probes that must not be zero
    let need: &[&str] = if property == "C07" { &["restriction_failed_calls", "restriction_passed_calls"] } else { &["calls_returning_value", "error_variant:Http", "error_variant:YaserdeError", "basic_auth_sent"] };
    let unreached: Vec<&str> = need.iter().copied().filter(|p| !stats.probes.contains_key(*p)).collect();
    if !unreached.is_empty() && stats.found.is_empty() {
        report.harness_errors.push(format!("reach probes stuck at zero: {unreached:?}"));
    }
    let slice: Vec<Vec<u64>> = tapes.iter().step_by((tapes.len() / 3000).max(1)).cloned().collect();
    let a = run_batch(clients::all, &slice, property, 16);
    std::env::set_var("VERIF_WORKERS", "3");
    let b = run_batch(clients::all, &slice, property, 16);
    std::env::remove_var("VERIF_WORKERS");
    let mism = u64::from(a.digest != b.digest);
    if mism != 0 {
        report.soft_errors.push("determinism self-check failed: same tapes, different histories".into());
    }

    // per key: candidates ordered by size; the first that reproduces in isolation (fresh thread, nothing ran before)
    // is shrunk and becomes the replay; a key none of whose candidates reproduces in isolation depends on state left
    // by earlier calls in the process (a `static`/thread_local in emitted code): it is still a violation and is
    // reported with a context-dependent replay (the batch coordinates)
    let mut cands: BTreeMap<String, Vec<(Vec<u64>, Finding)>> = BTreeMap::new();
    for (tape, f) in &stats.found {
        let v = cands.entry(f.key.clone()).or_default();
        if v.len() < 400 {
            v.push((tape.clone(), f.clone()));
        }
    }
    let mut violations = Vec::new();
    let mut context_dependent: Vec<String> = Vec::new();
    for (key, list) in &mut cands {
        list.sort_by_key(|(t, _)| (t.len(), t.iter().map(|v| (*v).min(1000)).sum::<u64>()));
        let mut chosen: Option<Vec<u64>> = None;
        for (tape, _) in list.iter().take(60) {
            if reproduces_in_fresh_process(property, tape, key) {
                chosen = Some(tape.clone());
                break;
            }
        }
        let (min_tape, used, isolated_ok) = match chosen {
            Some(t) => {
                // fast in-process shrink first; if its result does not hold in a fresh process (leaked statics helped),
                // shrink again with the fresh-process oracle
                let (m, u) = simkernel::shrink_tape(&t, 300, |c| run_isolated(&infos, &insts, c, property).0.findings.iter().any(|x| &x.key == key));
                if reproduces_in_fresh_process(property, &m, key) {
                    (m, u, true)
                } else {
                    let (m2, u2) = simkernel::shrink_tape(&t, 150, |c| reproduces_in_fresh_process(property, c, key));
                    (m2, u + u2, true)
                }
            }
            None => (list[0].0.clone(), 0, false),
        };
        let (facts, ch, sc) = run_isolated(&infos, &insts, &min_tape, property);
        let fin = facts.findings.iter().find(|x| &x.key == key).cloned().unwrap_or(list[0].1.clone());
        if !isolated_ok {
            context_dependent.push(key.clone());
        }
        violations.push(Violation {
            property: property.into(),
            engine: "net".into(),
            class: fin.class.clone(),
            key: key.clone(),
            detail: format!("{} [{} violating runs share this key{}]", fin.detail, stats.found.iter().filter(|x| &x.1.key == key).count(), if isolated_ok { "" } else { "; it does NOT reproduce when the run starts from a fresh thread: it depends on state left behind by earlier calls in the process" }),
            scenario: json!({"client": infos[sc.client].name, "wsdl_port_address": infos[sc.client].wsdl_location, "credentials": creds_name(sc.creds), "calls": facts.calls_json,
                "context_dependent": !isolated_ok, "batch": {"seed": report.seed, "tier": tier, "property": property}}),
            tape: ch.tape_json(),
            observations: json!({"history": facts.trace, "virtual_time_us": facts.virtual_us, "executor_steps": facts.steps}),
            trace: json!({"shrink_reexecutions": used}),
        });
    }
    report.triage(violations);
    let mut paths = Vec::new();
    for (i, v) in report.violations.iter().enumerate() {
        let p = report.write_replay(v, i);
        if context_dependent.contains(&v.key) {
            println!("NOTE: {} is context dependent (state left by earlier calls in the process): `--replay` re-runs the batch it was found in", p.display());
            paths.push(p);
            continue;
        }
        let st = std::process::Command::new(std::env::current_exe().unwrap()).arg(property).arg("--replay").arg(&p).output();
        match st {
            Ok(out) if out.status.code() == Some(1) && String::from_utf8_lossy(&out.stdout).contains("REPLAY-REPRODUCED") => {}
            other => report.harness_errors.push(format!("replay of {} did not reproduce in a fresh process: {:?}", p.display(), other.map(|o| o.status))),
        }
        paths.push(p);
    }
    let positions: BTreeMap<&String, &u64> = stats.probes.iter().filter(|(k, _)| k.starts_with("violating_position:")).collect();
    let coverage = json!({
        "evaluations": stats.runs,
        "client_calls": stats.calls,
        "distinct_nontrivial": stats.signatures.len(),
        "distinct_interleavings": stats.interleavings.len(),
        "rule": "one evaluation = one simulated run: 1..3 concurrent calls of generated client methods on one service value against a scripted server/transport (status x body x transport x credentials, chunking, latencies, truncation offset), scheduled step by step by the tape. Distinct = distinct tapes; non-trivial = the script is not the plain 200/exact/ok exchange or the request violates a restriction. distinct_interleavings counts distinct recorded event orders (event kinds per call, without times).",
        "samples": stats.samples,
        "exhaustive": property == "C16",
        "exhaustive_note": "C16: exhaustive for the single-call script product status(9) x body(8) x transport(5) x credentials(3) per operation and request variant (quick thins the instance variant by half); truncation offsets, chunkings, latencies and multi-call interleavings are seeded samples. C07: every mutation subset (quick: masks < 64) per operation under four server scripts is enumerated; the rest is seeded.",
        "product": product,
        "clients": infos.iter().map(|i| json!({"name": i.name, "operations": i.ops, "port_address": i.wsdl_location})).collect::<Vec<_>>(),
        "runs_per_hour": (stats.runs as f64 / report.start.elapsed().as_secs_f64().max(0.001) * 3600.0) as u64,
        "seeds": [report.seed],
        "faults_fired": stats.fired,
        "probes": stats.probes,
        "violating_positions": positions,
        "skipped_operations": stats.skipped,
        "simulated_time_ms": stats.virtual_us / 1000,
        "real_components": ["emitted clients (generated at check time from the working tree): envelopes, CheckRestrictions impls, service methods, helpers::send_soap_request_using_client, error::SoapError", "yaserde, yaserde_derive, xml-rs, log"],
        "stub_components": ["crate reqwest (sim/net/stub/reqwest): Client/RequestBuilder/Response/Error surface", "executor, network, scripted server and virtual clock (reqwest::sim)"],
        "batch_digest": format!("{:016x}", stats.digest),
        "determinism_selfcheck": {"runs_repeated": slice.len(), "worker_counts": [simkernel::workers(), 3], "mismatches": mism},
        "violating_runs_before_dedup": stats.found.len(),
    });
    report.write_evidence(coverage, &[
        "the stub's model of reqwest 0.12 (send/error_for_status_ref/text semantics) – see sim/net/stub/reqwest/src/sim.rs",
        "3xx replies, stalled servers and cancellation are outside the statement and not injected",
        "C07: only sentence 2 is decided; the emitted check's own verdict on a twin of the request is the classifier",
    ]);
    std::process::exit(report.finish(&paths));
}
