//! SINK engine (DESIGN.md 4.1) – decides C15.
//!
//! Real code: zeep_lib reader + the complete `write_xml` tree. Stub: only the sink (`FaultyWriter`).
//! Every run is a pure function of (document, tape); enumerated and seeded runs share decode, oracle and replay.

use simkernel::serde_json::{json, Value};
use simkernel::{panics, Chooser, Report, Rng, Violation};
use std::collections::{BTreeMap, BTreeSet, HashMap, HashSet};
use std::error::Error as StdError;
use std::io;
use std::path::PathBuf;
use std::sync::atomic::{AtomicUsize, Ordering};
use std::sync::{Arc, Mutex};
use zeep_lib::reader::{WriteXml, XmlReader};
use zeep_lib::utils::read_input_file_and_xsd_files_at_path;

const PROPERTY: &str = "C15";
const ENGINE: &str = "sink";
const CANON_ENTROPY: (u64, u64) = (0x5eed_0000_c15c_15c1, 0);

// ------------------------------------------------------------------------------------------------
// corpus

#[derive(Clone)]
struct CorpusDoc {
    name: String,
    path: PathBuf,
}

fn corpus() -> Vec<CorpusDoc> {
    let repo = simkernel::repo_root();
    let verif = simkernel::verif_root();
    let mut v = Vec::new();
    let mut add = |name: &str, p: PathBuf| v.push(CorpusDoc { name: name.to_string(), path: p });
    add("gen:plain.xsd", verif.join("corpus/nons/plain.xsd"));
    add("gen:chain/a.xsd", verif.join("corpus/chain/a.xsd"));
    add("gen:orders.wsdl", verif.join("corpus/orders/orders.wsdl"));
    add("gen:inventory.wsdl", verif.join("corpus/inventory/inventory.wsdl"));
    add("gen:ledger.wsdl", verif.join("corpus/ledger/ledger.wsdl"));
    // single emitted items larger than 8 KiB / 64 KiB (buffer thresholds): a 2600-value enumeration, a 900-field type,
    // 100 KB documentation texts
    // inputs that convert to nothing (header and helpers only): early-return paths of the writer
    add("gen:degenerate/empty.xsd", verif.join("corpus/degenerate/empty.xsd"));
    add("gen:degenerate/wellknown-only.xsd", verif.join("corpus/degenerate/wellknown-only.xsd"));
    add("gen:degenerate/notschema.xml", verif.join("corpus/degenerate/notschema.xml"));
    add("gen:big-enum.xsd", verif.join("corpus/big/big-enum.xsd"));
    // documentation texts of unusual shape (blank lines inside, at the ends, whitespace-only lines, CRLF, empty, braces and
    // comment markers, non-ASCII, very long lines) on simple types, enumerations, complex types, elements, attributes
    add("gen:docs/doc-shapes.xsd", verif.join("corpus/docs/doc-shapes.xsd"));
    add("gen:big-type.xsd", verif.join("corpus/big/big-type.xsd"));
    for (n, p) in [
        ("test-data/single-complex.xsd", "zeep-lib/test-data/single-complex.xsd"),
        ("test-data/extensions.xsd", "zeep-lib/test-data/extensions.xsd"),
        ("test-data/forward-pointing-type.xsd", "zeep-lib/test-data/forward-pointing-type.xsd"),
        ("test-data/use-of-groups.xsd", "zeep-lib/test-data/use-of-groups.xsd"),
        ("hello.wsdl", "resources/hello/hello.wsdl"),
        ("aic/workflow_wsdl.xml", "resources/aic/workflow_wsdl.xml"),
        ("tempconverter.wsdl", "resources/temp_converter/tempconverter.wsdl"),
        ("number_services.wsdl", "resources/number_services/number_services.wsdl"),
        ("smgr/userimport.xsd", "resources/smgr/userimport.xsd"),
        ("aic/agent_wsdl.xml", "resources/aic/agent_wsdl.xml"),
        ("cwmp-1-2.xsd", "resources/broadband_forum/cwmp-1-2.xsd"),
        ("aacc/CustomerWS.wsdl", "resources/aacc/CustomerWS.wsdl"),
        ("exchange/services.wsdl", "resources/exchange/services.wsdl"),
    ] {
        add(n, repo.join(p));
    }
    v.retain(|d| d.path.is_file());
    v
}

struct Loaded {
    doc: zeep_lib_doc::Doc,
    reference: Vec<u8>,
    n_calls: usize,
    n_flushes: usize,
}

/// `RustDocument` lives in a private module of zeep-lib; its type is only nameable through inference.
mod zeep_lib_doc {
    use super::*;
    pub type Doc = Box<dyn DocLike>;
    pub trait DocLike {
        fn write_to(&self, w: &mut FaultyWriter) -> Result<(), Box<dyn StdError + 'static>>;
        fn write_vec(&self, w: &mut CountingVec) -> Result<(), String>;
        fn write_prof(&self, w: &mut ProfilingWriter) -> Result<(), String>;
    }
    impl<T> DocLike for T
    where
        T: WriteXml<FaultyWriter> + WriteXml<CountingVec> + WriteXml<ProfilingWriter>,
    {
        fn write_to(&self, w: &mut FaultyWriter) -> Result<(), Box<dyn StdError + 'static>> {
            match WriteXml::<FaultyWriter>::write_xml(self, w) {
                Ok(()) => Ok(()),
                Err(e) => Err(super::box_err(e)),
            }
        }
        fn write_vec(&self, w: &mut CountingVec) -> Result<(), String> {
            WriteXml::<CountingVec>::write_xml(self, w).map_err(|_| "write_xml failed on an infallible sink".to_string())
        }
        fn write_prof(&self, w: &mut ProfilingWriter) -> Result<(), String> {
            WriteXml::<ProfilingWriter>::write_xml(self, w).map_err(|_| "write_xml failed on an infallible sink".to_string())
        }
    }
}

fn box_err<E: StdError + 'static>(e: E) -> Box<dyn StdError + 'static> {
    Box::new(e)
}

fn load(doc: &CorpusDoc) -> Result<Loaded, String> {
    let files = read_input_file_and_xsd_files_at_path(&doc.path).map_err(|e| format!("{e}"))?;
    let d = XmlReader::read_xml(&files).map_err(|e| format!("{e}"))?;
    let boxed: zeep_lib_doc::Doc = Box::new(d);
    let mut cv = CountingVec::default();
    boxed.write_vec(&mut cv)?;
    Ok(Loaded { doc: boxed, reference: cv.bytes, n_calls: cv.calls, n_flushes: cv.flushes })
}

/// Loads `doc` in a freshly spawned thread whose entropy is canonical and which has created no hash map yet, then
/// runs `f` there. Every run therefore sees the same hash keys whatever ran before it or on which worker.
fn with_loaded<R: Send>(doc: &CorpusDoc, f: impl FnOnce(&Loaded) -> R + Send) -> Result<R, String> {
    std::thread::scope(|s| {
        s.spawn(move || {
            simkernel::shim::thread_entropy(CANON_ENTROPY.0, CANON_ENTROPY.1);
            let l = load(doc)?;
            Ok(f(&l))
        })
        .join()
        .unwrap_or_else(|_| Err("loader thread panicked".to_string()))
    })
}

#[derive(Default)]
pub struct CountingVec {
    bytes: Vec<u8>,
    calls: usize,
    flushes: usize,
}
impl io::Write for CountingVec {
    fn write(&mut self, buf: &[u8]) -> io::Result<usize> {
        self.calls += 1;
        self.bytes.extend_from_slice(buf);
        Ok(buf.len())
    }
    fn flush(&mut self) -> io::Result<()> {
        self.flushes += 1;
        Ok(())
    }
}

// ------------------------------------------------------------------------------------------------
// fault plan

const ERR_NAMES: [&str; 18] = [
    "Other", "BrokenPipe", "PermissionDenied", "StorageFull", "QuotaExceeded", "FileTooLarge", "WouldBlock",
    "TimedOut", "ConnectionReset", "UnexpectedEof", "InvalidInput", "OutOfMemory", "os:EIO", "os:ENOSPC",
    "os:EDQUOT", "os:EFBIG", "os:EPIPE", "os:EBADF",
];

fn make_err(e: u64) -> io::Error {
    use io::ErrorKind as K;
    match e {
        0 => io::Error::new(K::Other, "injected"),
        1 => io::Error::new(K::BrokenPipe, "injected"),
        2 => io::Error::new(K::PermissionDenied, "injected"),
        3 => io::Error::new(K::StorageFull, "injected"),
        4 => io::Error::new(K::QuotaExceeded, "injected"),
        5 => io::Error::new(K::FileTooLarge, "injected"),
        6 => io::Error::new(K::WouldBlock, "injected"),
        7 => io::Error::new(K::TimedOut, "injected"),
        8 => io::Error::new(K::ConnectionReset, "injected"),
        9 => io::Error::new(K::UnexpectedEof, "injected"),
        10 => io::Error::new(K::InvalidInput, "injected"),
        11 => io::Error::new(K::OutOfMemory, "injected"),
        12 => io::Error::from_raw_os_error(5),
        13 => io::Error::from_raw_os_error(28),
        14 => io::Error::from_raw_os_error(122),
        15 => io::Error::from_raw_os_error(27),
        16 => io::Error::from_raw_os_error(32),
        _ => io::Error::from_raw_os_error(9),
    }
}

#[derive(Clone, Debug, Default)]
struct Plan {
    hard: Option<(usize, u64, bool)>, // call index, error, sticky
    zero: Option<usize>,
    at_byte: Option<(usize, u64)>,
    intr: Option<(usize, usize)>, // first call, repetitions
    short: Option<(u64, u64)>,    // pattern, parameter
    flush: Option<(usize, u64)>,  // flush call index, error (the generator calls no flush today; a refactoring may)
    short_once: Option<(usize, u64)>, // at call k only: 0 accept 1 byte, 1 accept len-1, 2 accept half
    then_interrupted: usize,          // with short_once: the next `n` calls (the retry of the remainder) are interrupted
}

const KIND_NAMES: [&str; 11] = ["none", "hard", "zero", "at_byte", "interrupted", "short", "short+hard", "interrupted+hard", "flush-fails", "short-once", "short-then-interrupted"];

fn decode_plan(ch: &mut Chooser, n_calls: usize, n_bytes: usize) -> (u64, Plan) {
    let n = n_calls.max(1) as u64;
    let kind = ch.choose("kind", 11);
    let mut p = Plan::default();
    match kind {
        1 => {
            let k = ch.choose("k", n) as usize;
            let e = ch.choose("err", 18);
            let sticky = ch.choose("sticky", 2) == 1;
            p.hard = Some((k, e, sticky));
        }
        2 => p.zero = Some(ch.choose("k", n) as usize),
        3 => {
            let b = ch.choose("byte", n_bytes.max(1) as u64) as usize;
            let e = ch.choose("err", 18);
            p.at_byte = Some((b, e));
        }
        4 => {
            let k = ch.choose("k", n) as usize;
            let r = ch.choose("repeat", 3) as usize + 1;
            p.intr = Some((k, r));
        }
        5 => {
            let pat = ch.choose("pattern", 5);
            let param = ch.choose("param", 1 << 16);
            p.short = Some((pat, param));
        }
        6 => {
            let pat = ch.choose("pattern", 4);
            let param = ch.choose("param", 1 << 16);
            p.short = Some((pat, param));
            // with short writes the number of calls grows up to the number of bytes
            let k = ch.choose("k", (n_bytes.max(1) as u64).min(n * 8)) as usize;
            let e = ch.choose("err", 18);
            p.hard = Some((k, e, false));
        }
        7 => {
            let k = ch.choose("k", n) as usize;
            let r = ch.choose("repeat", 3) as usize + 1;
            p.intr = Some((k, r));
            let gap = ch.choose("gap", 16) as usize;
            let e = ch.choose("err", 18);
            p.hard = Some((k + r + gap, e, false));
        }
        9 => {
            let k = ch.choose("k", n) as usize;
            let how = ch.choose("short_how", 3);
            p.short_once = Some((k, how));
        }
        10 => {
            let k = ch.choose("k", n) as usize;
            let how = ch.choose("short_how", 3);
            p.short_once = Some((k, how));
            p.then_interrupted = 1 + ch.choose("repeat", 3) as usize;
        }
        8 => {
            let j = ch.choose("flush_index", 64) as usize;
            let e = ch.choose("err", 18);
            p.flush = Some((j, e));
        }
        _ => {}
    }
    (kind, p)
}

// ------------------------------------------------------------------------------------------------
// the simulated sink

pub struct FaultyWriter {
    plan: Plan,
    reference: Arc<Vec<u8>>,
    calls: usize,
    accepted: usize,
    diverged: bool,
    fired_failure: usize,
    fired_transient: usize,
    first_failure_call: Option<usize>,
    capture_site: bool,
    site: Option<String>,
    lcg: u64,
    flushes: usize,
}

impl FaultyWriter {
    fn new(plan: Plan, reference: Arc<Vec<u8>>, capture_site: bool) -> Self {
        let lcg = plan.short.map_or(1, |(_, p)| p.wrapping_mul(2) + 1);
        FaultyWriter {
            plan,
            reference,
            calls: 0,
            accepted: 0,
            diverged: false,
            fired_failure: 0,
            fired_transient: 0,
            first_failure_call: None,
            capture_site,
            site: None,
            lcg,
            flushes: 0,
        }
    }
    fn accept(&mut self, part: &[u8]) {
        let end = self.accepted + part.len();
        if end > self.reference.len() || self.reference[self.accepted..end] != *part {
            self.diverged = true;
        }
        self.accepted = end;
    }
    fn fail(&mut self, idx: usize) {
        self.fired_failure += 1;
        if self.first_failure_call.is_none() {
            self.first_failure_call = Some(idx);
            if self.capture_site {
                self.site = Some(innermost_zeep_site());
            }
        }
    }
}

impl io::Write for FaultyWriter {
    fn write(&mut self, buf: &[u8]) -> io::Result<usize> {
        let idx = self.calls;
        self.calls += 1;
        if buf.is_empty() {
            return Ok(0);
        }
        if let Some((k, _)) = self.plan.short_once {
            if self.plan.then_interrupted > 0 && idx > k && idx <= k + self.plan.then_interrupted {
                self.fired_transient += 1;
                return Err(io::Error::new(io::ErrorKind::Interrupted, "injected EINTR after a partial write"));
            }
        }
        if let Some((k, r)) = self.plan.intr {
            if idx >= k && idx < k + r {
                self.fired_transient += 1;
                return Err(io::Error::new(io::ErrorKind::Interrupted, "injected EINTR"));
            }
        }
        if let Some((k, e, sticky)) = self.plan.hard {
            if idx == k || (sticky && idx > k) {
                self.fail(idx);
                return Err(make_err(e));
            }
        }
        if self.plan.zero == Some(idx) {
            self.fail(idx);
            return Ok(0);
        }
        let mut n = buf.len();
        if let Some((pat, _)) = self.plan.short {
            n = match pat {
                0 => 1,
                1 => buf.len().div_ceil(2),
                2 => {
                    self.lcg = self.lcg.wrapping_mul(6_364_136_223_846_793_005).wrapping_add(1_442_695_040_888_963_407);
                    1 + ((self.lcg >> 33) as usize) % buf.len()
                }
                3 => {
                    if idx % 2 == 0 {
                        1
                    } else {
                        buf.len()
                    }
                }
                _ => buf.len().saturating_sub(1).max(1),
            };
            if n < buf.len() {
                self.fired_transient += 1;
            }
        }
        if let Some((k, how)) = self.plan.short_once {
            if k == idx && buf.len() > 1 {
                n = match how {
                    0 => 1,
                    1 => buf.len() - 1,
                    _ => buf.len().div_ceil(2),
                };
                self.fired_transient += 1;
            }
        }
        if let Some((b, e)) = self.plan.at_byte {
            let room = b.saturating_sub(self.accepted);
            if room == 0 {
                self.fail(idx);
                return Err(make_err(e));
            }
            if n > room {
                n = room;
                self.fired_transient += 1;
            }
        }
        self.accept(&buf[..n]);
        Ok(n)
    }
    fn flush(&mut self) -> io::Result<()> {
        let j = self.flushes;
        self.flushes += 1;
        if let Some((k, e)) = self.plan.flush {
            if k == j {
                self.fail(self.calls);
                return Err(make_err(e));
            }
        }
        Ok(())
    }
}

fn innermost_zeep_site() -> String {
    let bt = backtrace::Backtrace::new();
    for f in bt.frames() {
        for s in f.symbols() {
            if let (Some(file), Some(line)) = (s.filename(), s.lineno()) {
                let fs = file.to_string_lossy();
                if fs.contains("zeep-lib/src/") {
                    return format!("{}:{}", simkernel::norm_loc(&fs), line);
                }
            }
        }
    }
    "unknown-site".to_string()
}

// ------------------------------------------------------------------------------------------------
// one run + oracle

#[derive(Debug, Clone)]
struct Obs {
    result: &'static str, // ok | err-io | err-other | panic
    err_text: String,
    err_kind_matches: bool,
    fired_failure: usize,
    fired_transient: usize,
    calls: usize,
    accepted: usize,
    complete: bool,
    prefix_ok: bool,
    first_failure_call: Option<usize>,
    site: Option<String>,
    panic_loc: String,
}

fn io_error_in_chain<'a>(e: &'a (dyn StdError + 'static)) -> Option<&'a io::Error> {
    let mut cur: Option<&(dyn StdError + 'static)> = Some(e);
    let mut depth = 0;
    while let Some(c) = cur {
        if let Some(ioe) = c.downcast_ref::<io::Error>() {
            return Some(ioe);
        }
        cur = c.source();
        depth += 1;
        if depth > 16 {
            break;
        }
    }
    None
}

fn run_plan(l: &Loaded, reference: &Arc<Vec<u8>>, plan: &Plan, capture_site: bool) -> Obs {
    let mut w = FaultyWriter::new(plan.clone(), reference.clone(), capture_site);
    let r = panics::catch(|| l.doc.write_to(&mut w));
    let mut o = Obs {
        result: "ok",
        err_text: String::new(),
        err_kind_matches: false,
        fired_failure: w.fired_failure,
        fired_transient: w.fired_transient,
        calls: w.calls,
        accepted: w.accepted,
        complete: !w.diverged && w.accepted == reference.len(),
        prefix_ok: !w.diverged,
        first_failure_call: w.first_failure_call,
        site: w.site.clone(),
        panic_loc: String::new(),
    };
    match r {
        Err((msg, loc)) => {
            o.result = "panic";
            o.err_text = msg;
            o.panic_loc = simkernel::norm_loc(&loc);
        }
        Ok(Ok(())) => {}
        Ok(Err(e)) => {
            o.err_text = format!("{e}");
            if let Some(ioe) = io_error_in_chain(e.as_ref()) {
                o.result = "err-io";
                let want = plan.hard.map(|h| h.1).or(plan.at_byte.map(|b| b.1));
                o.err_kind_matches = match want {
                    Some(code) => {
                        let m = make_err(code);
                        m.kind() == ioe.kind() && m.raw_os_error() == ioe.raw_os_error()
                    }
                    None => ioe.kind() == io::ErrorKind::WriteZero,
                };
            } else {
                o.result = "err-other";
            }
        }
    }
    o
}

/// Oracle S1–S3. Returns (class, site-dependent?) when violated.
fn judge(o: &Obs) -> Option<&'static str> {
    if o.result == "panic" {
        return Some("panic"); // S1
    }
    if o.fired_failure > 0 {
        // S2
        return match o.result {
            "ok" => Some("false-success"),
            "err-other" => Some("error-without-io-cause"),
            _ => None,
        };
    }
    // S3: only transient faults (or none) fired
    match o.result {
        "ok" if o.complete => None,
        "ok" => Some("bytes-differ"),
        _ => Some("spurious-error"),
    }
}

fn obs_json(o: &Obs) -> Value {
    json!({
        "result": o.result, "error": o.err_text, "fired_failure": o.fired_failure,
        "fired_transient": o.fired_transient, "sink_calls": o.calls, "bytes_accepted": o.accepted,
        "output_complete": o.complete, "accepted_bytes_are_prefix_of_reference": o.prefix_ok,
        "first_failure_call": o.first_failure_call, "site": o.site, "panic_location": o.panic_loc,
    })
}

fn violation_key(class: &str, o: &Obs) -> String {
    match class {
        "panic" => format!("panic@{}", o.panic_loc),
        "bytes-differ" | "spurious-error" => format!("{class}@{}", o.site.clone().unwrap_or_else(|| "transient".into())),
        _ => format!("{class}@{}", o.site.clone().unwrap_or_else(|| "unknown-site".into())),
    }
}

// ------------------------------------------------------------------------------------------------
// work items

#[derive(Clone, Debug)]
struct Item {
    doc: usize,
    tape: Vec<u64>,
}

#[derive(Default)]
struct Stats {
    evaluations: u64,
    fired: BTreeMap<String, u64>,
    probes: BTreeMap<String, u64>,
    signatures: HashSet<u64>,
    per_doc_runs: BTreeMap<String, u64>,
    found: Vec<(usize, Vec<u64>, String, String)>, // doc, tape, class, key
    samples: Vec<Value>,
    result_hash: u64,
}

fn bump(m: &mut BTreeMap<String, u64>, k: &str, by: u64) {
    *m.entry(k.to_string()).or_insert(0) += by;
}

struct Ctx {
    docs: Vec<CorpusDoc>,
    dims: Vec<(usize, usize)>, // n_calls, n_bytes per doc (from the main thread's load)
    flushes: Vec<usize>,
}

/// A unit is a run of consecutive items on the same document; it is processed in one fresh thread.
fn units(items: &[Item]) -> Vec<(usize, usize)> {
    let mut u = Vec::new();
    let mut i = 0;
    while i < items.len() {
        let mut j = i;
        while j < items.len() && items[j].doc == items[i].doc && j - i < 768 {
            j += 1;
        }
        u.push((i, j));
        i = j;
    }
    u
}

fn worker(ctx: &Ctx, items: &[Item], units: &[(usize, usize)], next: &AtomicUsize, out: &Mutex<Stats>) {
    let mut st = Stats::default();
    loop {
        let u = next.fetch_add(1, Ordering::Relaxed);
        if u >= units.len() {
            break;
        }
        let (start, end) = units[u];
        let d = items[start].doc;
        let stref = &mut st;
        let _ = with_loaded(&ctx.docs[d], move |l| {
            let st = stref;
            let reference = Arc::new(l.reference.clone());
            let reference = &reference;
            for (i, it) in items[start..end].iter().enumerate() {
            let idx = start + i;
            let mut ch = Chooser::replay(it.tape.clone());
            let (kind, plan) = decode_plan(&mut ch, l.n_calls, l.reference.len());
            let o = run_plan(l, reference, &plan, false);
            st.evaluations += 1;
            bump(&mut st.per_doc_runs, &ctx.docs[it.doc].name, 1);
            let kname = KIND_NAMES[kind as usize];
            if o.fired_failure > 0 || o.fired_transient > 0 {
                bump(&mut st.fired, kname, 1);
                let mut h = simkernel::fnv(&ctx.docs[it.doc].name);
                for v in &it.tape {
                    h = h.rotate_left(9) ^ v.wrapping_mul(0x9e37_79b9_7f4a_7c15);
                }
                st.signatures.insert(h);
            } else {
                bump(&mut st.probes, "runs_where_no_fault_fired", 1);
            }
            if o.fired_failure > 0 {
                bump(&mut st.probes, "failure_fault_fired", 1);
                if o.result == "err-io" {
                    bump(&mut st.probes, "failure_reported_as_io_error", 1);
                    if o.err_kind_matches {
                        bump(&mut st.probes, "reported_error_kind_equals_injected", 1);
                    }
                }
                if o.prefix_ok {
                    bump(&mut st.probes, "accepted_bytes_prefix_of_reference", 1);
                }
                if let Some((_, e, _)) = plan.hard {
                    bump(&mut st.fired, &format!("err:{}", ERR_NAMES[e as usize]), 1);
                }
            } else if o.fired_transient > 0 {
                bump(&mut st.probes, "transient_only_runs", 1);
                if o.complete {
                    bump(&mut st.probes, "transient_only_runs_byte_identical", 1);
                }
            }
            // order-independent digest of all observations, for the determinism self-check
            let mut h = idx as u64 ^ simkernel::fnv(o.result);
            h = h.rotate_left(13) ^ (o.calls as u64) ^ ((o.accepted as u64) << 20) ^ ((o.fired_failure as u64) << 50);
            let mut t = h;
            st.result_hash = st.result_hash.wrapping_add(simkernel::splitmix64(&mut t));
            if idx % (items.len() / 6 + 1) == 0 && st.samples.len() < 8 {
                st.samples.push(json!({"document": ctx.docs[it.doc].name, "kind": kname, "tape": ch.tape_json(), "observed": obs_json(&o)}));
            }
            if let Some(class) = judge(&o) {
                // identify the write site by re-running with site capture
                let o2 = run_plan(l, reference, &plan, true);
                let key = violation_key(class, &o2);
                if st.found.len() < 4000 {
                    st.found.push((it.doc, it.tape.clone(), class.to_string(), key));
                }
            }
            }
        });
    }
    let mut g = out.lock().unwrap();
    g.evaluations += st.evaluations;
    for (k, v) in st.fired {
        bump(&mut g.fired, &k, v);
    }
    for (k, v) in st.probes {
        bump(&mut g.probes, &k, v);
    }
    for (k, v) in st.per_doc_runs {
        bump(&mut g.per_doc_runs, &k, v);
    }
    g.signatures.extend(st.signatures);
    g.found.extend(st.found);
    g.samples.extend(st.samples);
    g.result_hash = g.result_hash.wrapping_add(st.result_hash);
}

fn run_items(ctx: &Ctx, items: &[Item]) -> Stats {
    let next = AtomicUsize::new(0);
    let out = Mutex::new(Stats::default());
    let us = units(items);
    std::thread::scope(|s| {
        for _ in 0..simkernel::workers() {
            s.spawn(|| worker(ctx, items, &us, &next, &out));
        }
    });
    out.into_inner().unwrap()
}

// ------------------------------------------------------------------------------------------------
// write-site reach

pub struct ProfilingWriter {
    sig_to_site: HashMap<u64, String>,
    site_first_call: BTreeMap<String, usize>,
    calls: usize,
}
impl io::Write for ProfilingWriter {
    fn write(&mut self, buf: &[u8]) -> io::Result<usize> {
        let idx = self.calls;
        self.calls += 1;
        let mut ips: Vec<usize> = Vec::with_capacity(24);
        backtrace::trace(|f| {
            ips.push(f.ip() as usize);
            ips.len() < 24
        });
        let mut sig = 0u64;
        for ip in &ips {
            sig = sig.rotate_left(7) ^ (*ip as u64).wrapping_mul(0x9e37_79b9_7f4a_7c15);
        }
        if !self.sig_to_site.contains_key(&sig) {
            let mut site = "unknown-site".to_string();
            'outer: for ip in &ips {
                let mut found = None;
                backtrace::resolve(*ip as *mut std::ffi::c_void, |s| {
                    if found.is_none() {
                        if let (Some(file), Some(line)) = (s.filename(), s.lineno()) {
                            let fs = file.to_string_lossy();
                            if fs.contains("zeep-lib/src/") {
                                found = Some(format!("{}:{}", simkernel::norm_loc(&fs), line));
                            }
                        }
                    }
                });
                if let Some(f) = found {
                    site = f;
                    break 'outer;
                }
            }
            self.sig_to_site.insert(sig, site);
        }
        let site = self.sig_to_site[&sig].clone();
        self.site_first_call.entry(site).or_insert(idx);
        Ok(buf.len())
    }
    fn flush(&mut self) -> io::Result<()> {
        Ok(())
    }
}

/// Static list of `write!`/`writeln!` sites on a `writer` in the emitters of the working tree.
fn static_write_sites() -> BTreeSet<String> {
    let root = simkernel::repo_root().join("zeep-lib/src/model");
    let mut files = Vec::new();
    let mut stack = vec![root];
    while let Some(d) = stack.pop() {
        if let Ok(rd) = std::fs::read_dir(&d) {
            for e in rd.flatten() {
                let p = e.path();
                if p.is_dir() {
                    stack.push(p);
                } else if p.extension().is_some_and(|x| x == "rs") {
                    files.push(p);
                }
            }
        }
    }
    files.sort();
    let mut sites = BTreeSet::new();
    for f in files {
        let name = f.file_name().unwrap().to_string_lossy().to_string();
        if name == "helpers_content.rs" || name == "helpers_test.rs" {
            continue;
        }
        let Ok(text) = std::fs::read_to_string(&f) else { continue };
        let cut = text.find("#[cfg(test)]").unwrap_or(text.len());
        let body = &text[..cut];
        let bytes = body.as_bytes();
        let mut line = 1usize;
        let mut i = 0usize;
        while i < bytes.len() {
            if bytes[i] == b'\n' {
                line += 1;
            }
            for mac in ["writeln!(", "write!("] {
                if body[i..].starts_with(mac) && (i == 0 || !(bytes[i - 1].is_ascii_alphanumeric() || bytes[i - 1] == b'_')) {
                    let rest = body[i + mac.len()..].trim_start();
                    if rest.starts_with("writer") {
                        sites.insert(format!("{}:{}", simkernel::norm_loc(&f.to_string_lossy()), line));
                    }
                }
            }
            i += 1;
        }
    }
    sites
}

// ------------------------------------------------------------------------------------------------
// enumeration / exploration plans per tier

fn build_items(ctx: &Ctx, tier: &str, seed: u64) -> (Vec<Item>, Value) {
    let mut items = Vec::new();
    let mut product = Vec::new();
    let thorough = tier == "thorough";
    // the three smallest documents get every error kind at every call index
    let mut order: Vec<usize> = (0..ctx.docs.len()).filter(|d| ctx.dims[*d].0 > 0).collect();
    order.sort_by_key(|d| ctx.dims[*d].0);
    let smallest: BTreeSet<usize> = order.iter().take(6).copied().collect();
    let rep_errs = [0u64, 3, 13, 16]; // Other, StorageFull, ENOSPC, EPIPE
    for &d in &order {
        let (n, nb) = ctx.dims[d];
        let name = &ctx.docs[d].name;
        items.push(Item { doc: d, tape: vec![0] });
        for j in 0..ctx.flushes[d].min(64) as u64 {
            for e in rep_errs {
                items.push(Item { doc: d, tape: vec![8, j, e] });
            }
        }
        for pat in 0..5u64 {
            items.push(Item { doc: d, tape: vec![5, pat, 7 + pat] });
        }
        let full_limit = if thorough { 30_000 } else { 6_000 };
        if n <= full_limit {
            let all_errs = smallest.contains(&d) || (thorough && n <= 6_000);
            let errs: Vec<u64> = if all_errs { (0..18).collect() } else { rep_errs.to_vec() };
            for k in 0..n as u64 {
                for e in &errs {
                    items.push(Item { doc: d, tape: vec![1, k, *e, 0] });
                }
                items.push(Item { doc: d, tape: vec![2, k] });
                items.push(Item { doc: d, tape: vec![4, k, 0] });
                if !all_errs {
                    // besides the representative kinds, one further kind per call index, rotating through the rest
                    items.push(Item { doc: d, tape: vec![1, k, [1u64, 2, 4, 5, 6, 7, 8, 9, 10, 11, 12, 14, 15, 17][(k % 14) as usize], 0] });
                }
                if n <= 700 || thorough {
                    // a single short write at exactly this call (1 byte / len-1 / half), and repeated interruptions of it
                    for how in 0..3u64 {
                        items.push(Item { doc: d, tape: vec![9, k, how] });
                        // partial progress, then the retry of the remainder is interrupted once / twice
                        items.push(Item { doc: d, tape: vec![10, k, how, 0] });
                        if how == 2 {
                            items.push(Item { doc: d, tape: vec![10, k, how, 1] });
                        }
                    }
                    items.push(Item { doc: d, tape: vec![4, k, 1] });
                    items.push(Item { doc: d, tape: vec![4, k, 2] });
                }
                if thorough && n <= 6_000 {
                    items.push(Item { doc: d, tape: vec![1, k, 0, 1] });
                    items.push(Item { doc: d, tape: vec![4, k, 2] });
                }
            }
            product.push(json!({"document": name, "sink_calls": n, "call_indices": "all", "error_kinds": errs.len(), "plus": "zero(k), interrupted(k,1) at every k; one rotating further error kind per k; short(p) for 5 patterns; for documents with <= 700 sink calls (thorough: all) also short-once(k, 1 byte | len-1 | half), the same followed by Interrupted on the retried remainder, and interrupted(k,2), interrupted(k,3)"}));
        } else {
            // very large documents: a prefix, plus seeded indices (thorough: many more)
            let prefix = if thorough { 20_000 } else { 600 };
            let sampled = if thorough { 60_000 } else { 1_500 };
            let mut rng = Rng::derive(seed, "sink-large", d as u64);
            let mut ks: BTreeSet<u64> = (0..prefix.min(n) as u64).collect();
            while ks.len() < (prefix + sampled).min(n) {
                ks.insert(rng.below(n as u64));
            }
            for k in &ks {
                items.push(Item { doc: d, tape: vec![1, *k, rep_errs[(*k % 4) as usize], 0] });
                if k % 3 == 0 {
                    items.push(Item { doc: d, tape: vec![2, *k] });
                    items.push(Item { doc: d, tape: vec![4, *k, 0] });
                }
            }
            product.push(json!({"document": name, "sink_calls": n, "call_indices": format!("first {prefix} + {sampled} seeded"), "error_kinds": 4, "exhaustive_for_this_document": false}));
        }
        // failure points by byte offset
        if n <= 700 || (thorough && n <= 6_000) {
            let step = if thorough || nb <= 30_000 { 1 } else { 7 };
            let mut b = 0;
            while b < nb {
                items.push(Item { doc: d, tape: vec![3, b as u64, 13] });
                b += step;
            }
        }
    }
    // seeded combinations (short+hard, interrupted+hard, at_byte elsewhere)
    let seeded = if thorough { 1_000_000 } else { 20_000 };
    let mut weighted = Vec::new();
    for &d in &order {
        for _ in 0..(if ctx.dims[d].0 <= 6_000 { 4 } else { 1 }) {
            weighted.push(d);
        }
    }
    for r in 0..seeded {
        let mut ch = Chooser::explore(Rng::derive(seed, "sink-seeded", r));
        // bias towards documents that are cheap to run; large ones get a small share
        let d = weighted[ch.choose("doc", weighted.len() as u64) as usize];
        let kind = [3u64, 6, 7, 6, 7, 1, 4, 9, 10, 10][ch.choose("kindsel", 10) as usize];
        let (n, nb) = ctx.dims[d];
        let mut tape = vec![kind];
        match kind {
            3 => tape.extend([ch.choose("byte", nb as u64), ch.choose("err", 18)]),
            6 => tape.extend([ch.choose("pattern", 4), ch.choose("param", 1 << 16), ch.choose("k", (nb as u64).min(n as u64 * 8)), ch.choose("err", 18)]),
            7 => tape.extend([ch.choose("k", n as u64), ch.choose("repeat", 3), ch.choose("gap", 16), ch.choose("err", 18)]),
            1 => tape.extend([ch.choose("k", n as u64), ch.choose("err", 18), ch.choose("sticky", 2)]),
            9 => tape.extend([ch.choose("k", n as u64), ch.choose("short_how", 3)]),
            10 => tape.extend([ch.choose("k", n as u64), ch.choose("short_how", 3), ch.choose("repeat", 3)]),
            _ => tape.extend([ch.choose("k", n as u64), ch.choose("repeat", 3)]),
        }
        items.push(Item { doc: d, tape });
    }
    (items, json!({"enumerated": product, "seeded_combination_runs": seeded}))
}

// ------------------------------------------------------------------------------------------------

type Replayed = (Option<(String, String)>, Obs, Value);

fn replay_on(l: &Loaded, tape: &[u64]) -> Replayed {
    let reference = Arc::new(l.reference.clone());
    let mut ch = Chooser::replay(tape.to_vec());
    let (_, plan) = decode_plan(&mut ch, l.n_calls, l.reference.len());
    let o = run_plan(l, &reference, &plan, true);
    let v = judge(&o).map(|c| (c.to_string(), violation_key(c, &o)));
    (v, o, ch.tape_json())
}

fn replay_one(ctx: &Ctx, doc_name: &str, tape: &[u64]) -> Result<Replayed, String> {
    let d = ctx.docs.iter().position(|c| c.name == doc_name).ok_or_else(|| format!("unknown document {doc_name}"))?;
    with_loaded(&ctx.docs[d], |l| replay_on(l, tape))
}

fn main() {
    let (tier, replay, _extra) = simkernel::parse_cli();
    panics::install_hook();
    if !simkernel::shim::present() {
        eprintln!("HARNESS-ERROR: libverifsim.so is not preloaded (run through /verif/check)");
        std::process::exit(2);
    }
    let docs = corpus();
    let mut dims = Vec::new();
    let mut flushes = Vec::new();
    let mut skipped = Vec::new();
    for d in &docs {
        match with_loaded(d, |l| (l.n_calls, l.reference.len(), l.n_flushes)) {
            Ok(x) => {
                dims.push((x.0, x.1));
                flushes.push(x.2);
            }
            Err(e) => {
                skipped.push(json!({"document": d.name, "reason": e}));
                dims.push((0, 0));
                flushes.push(0);
            }
        }
    }
    let ctx = Ctx { docs, dims, flushes };

    if let Some(path) = replay {
        let v = match simkernel::load_replay(&path) {
            Ok(v) => v,
            Err(e) => {
                eprintln!("HARNESS-ERROR: {e}");
                std::process::exit(2);
            }
        };
        let doc_name = v["scenario"]["document"].as_str().unwrap_or("").to_string();
        let tape = simkernel::tape_values_from_json(&v["tape"]);
        match replay_one(&ctx, &doc_name, &tape) {
            Ok((Some((class, key)), o, _)) => {
                println!("REPLAY property={PROPERTY} class={class} key={key} observed={}", obs_json(&o));
                let same = v["violation_class"].as_str() == Some(class.as_str()) && v["key"].as_str() == Some(key.as_str());
                println!("REPLAY-{}", if same { "REPRODUCED" } else { "DIFFERENT-VIOLATION" });
                println!("VIOLATION property={PROPERTY} replay={}", path.display());
                std::process::exit(1);
            }
            Ok((None, o, _)) => {
                println!("REPLAY property={PROPERTY} no violation; observed={}", obs_json(&o));
                std::process::exit(0);
            }
            Err(e) => {
                eprintln!("HARNESS-ERROR: {e}");
                std::process::exit(2);
            }
        }
    }

    let mut report = Report::new(PROPERTY, ENGINE, &tier, "fault_enumeration");
    if ctx.dims.iter().filter(|d| d.0 > 0).count() < 3 {
        report.harness_errors.push(format!("fewer than three corpus documents could be generated: {skipped:?}"));
    }
    let (items, product) = build_items(&ctx, &tier, report.seed);
    let stats = run_items(&ctx, &items);

    // determinism self-check: a slice of the items twice more, with a different worker count
    let slice: Vec<Item> = items.iter().step_by((items.len() / 20_000).max(1)).cloned().collect();
    let a = run_items(&ctx, &slice);
    std::env::set_var("VERIF_WORKERS", "3");
    let b = run_items(&ctx, &slice);
    std::env::remove_var("VERIF_WORKERS");
    let det_mismatch = u64::from(a.result_hash != b.result_hash || a.evaluations != b.evaluations);
    if det_mismatch != 0 {
        report.soft_errors.push("determinism self-check failed: identical items gave different observations".into());
    }

    // write-site reach (documents that are cheap to profile)
    let static_sites = static_write_sites();
    let mut reached: BTreeMap<String, (String, usize)> = BTreeMap::new();
    for (d, c) in ctx.docs.iter().enumerate() {
        if ctx.dims[d].0 == 0 || ctx.dims[d].0 > 6_000 {
            continue;
        }
        if let Ok(sites) = with_loaded(c, |l| {
            let mut pw = ProfilingWriter { sig_to_site: HashMap::new(), site_first_call: BTreeMap::new(), calls: 0 };
            let _ = l.doc.write_prof(&mut pw);
            pw.site_first_call
        }) {
            for (site, idx) in sites {
                reached.entry(site).or_insert((c.name.clone(), idx));
            }
        }
    }
    let unreached: Vec<&String> = static_sites.iter().filter(|s| !reached.contains_key(*s)).collect();
    let extra_sites: Vec<&String> = reached.keys().filter(|s| !static_sites.contains(*s)).collect();

    // triage: one violation per key, the smallest (document, tape) first; then shrink the tape
    let mut by_key: BTreeMap<String, (usize, Vec<u64>, String)> = BTreeMap::new();
    for (d, tape, class, key) in &stats.found {
        let cand = (*d, tape.clone(), class.clone());
        let better = match by_key.get(key) {
            None => true,
            Some((od, ot, _)) => (ctx.dims[*d].0, tape.len(), tape.iter().sum::<u64>()) < (ctx.dims[*od].0, ot.len(), ot.iter().sum::<u64>()),
        };
        if better {
            by_key.insert(key.clone(), cand);
        }
    }
    let mut violations = Vec::new();
    for (key, (d, tape, class)) in &by_key {
        let name = ctx.docs[*d].name.clone();
        let ((min_tape, used), (v, o, tape_json)) = with_loaded(&ctx.docs[*d], |l| {
            let r = simkernel::shrink_tape(tape, 400, |t| matches!(replay_on(l, t), (Some((c, k)), _, _) if &c == class && &k == key));
            let fin = replay_on(l, &r.0);
            (r, fin)
        })
        .unwrap_or(((tape.clone(), 0), (None, run_dummy(), Value::Null)));
        let mut ch = Chooser::replay(min_tape.clone());
        let (kind, plan) = decode_plan(&mut ch, ctx.dims[*d].0, ctx.dims[*d].1);
        violations.push(Violation {
            property: PROPERTY.into(),
            engine: ENGINE.into(),
            class: class.clone(),
            key: key.clone(),
            detail: format!("document {name}, fault {} {:?}: result {} ({}); {} other failing runs share this key", KIND_NAMES[kind as usize], plan, o.result, o.err_text, stats.found.iter().filter(|f| &f.3 == key).count() - 1),
            scenario: json!({"document": name, "path": ctx.docs[*d].path, "fault": format!("{plan:?}"), "kind": KIND_NAMES[kind as usize]}),
            tape: tape_json,
            observations: obs_json(&o),
            trace: json!({"shrink_reexecutions": used, "reproduced_after_shrink": v.is_some()}),
        });
    }
    report.triage(violations);

    let mut paths = Vec::new();
    for (i, v) in report.violations.iter().enumerate() {
        let p = report.write_replay(v, i);
        // confirm in a fresh process
        let st = std::process::Command::new(std::env::current_exe().unwrap()).arg("--replay").arg(&p).output();
        match st {
            Ok(out) if out.status.code() == Some(1) && String::from_utf8_lossy(&out.stdout).contains("REPLAY-REPRODUCED") => {}
            other => report.harness_errors.push(format!("replay of {} did not reproduce in a fresh process: {:?}", p.display(), other.map(|o| o.status))),
        }
        paths.push(p);
    }

    let exhaustive = true;
    let coverage = json!({
        "evaluations": stats.evaluations,
        "distinct_nontrivial": stats.signatures.len(),
        "rule": "one evaluation = one complete write_xml run of one corpus document against the fault-injecting sink under one fault plan (tape). Enumerated: every sink call index k x {hard error kinds, Ok(0), Interrupted} per document as listed in `product`, short-write patterns, byte-offset failure points; plus seeded combinations. Distinct = distinct (document, tape); non-trivial = at least one injected fault actually fired in the run (measured in the sink, not configured).",
        "samples": stats.samples,
        "exhaustive": exhaustive,
        "exhaustive_note": "exhaustive for the (document, call index, fault kind) products listed under product.enumerated with call_indices=all; the byte-offset, combination and large-document parts are seeded samples",
        "product": product,
        "runs_per_hour": (stats.evaluations as f64 / report.start.elapsed().as_secs_f64().max(0.001) * 3600.0) as u64,
        "seeds": [report.seed],
        "faults_fired": stats.fired,
        "probes": stats.probes,
        "runs_per_document": stats.per_doc_runs,
        "documents_skipped": skipped,
        "simulated_time_ms": "n/a: the generator reads no clock; order is the sink call index",
        "write_sites": {"static_in_working_tree": static_sites.len(), "reached_by_profiled_documents": reached.len(), "unreached": unreached, "reached_but_not_in_static_list": extra_sites,
                         "first_reach": reached.iter().map(|(s, (d, i))| json!([s, d, i])).collect::<Vec<_>>()},
        "real_components": ["zeep_lib::utils::read_input_file_and_xsd_files_at_path", "zeep_lib::reader::XmlReader::read_xml", "every impl WriteXml (write_xml tree)", "std::io::Write::write_all/write_fmt"],
        "stub_components": ["the sink: FaultyWriter implementing std::io::Write (write and flush)", "entropy (getrandom via libverifsim.so, fixed so that call indices are repeatable)"],
        "batch_digest": format!("{:016x}", stats.result_hash),
        "determinism_selfcheck": {"runs_repeated": slice.len(), "worker_counts": [simkernel::workers(), 3], "mismatches": det_mismatch},
        "violating_runs_before_dedup": stats.found.len(),
    });
    report.write_evidence(coverage, &[
        "the corpus documents exercise the emitters (see write_sites.unreached for emitter write sites no document reaches)",
        "a failure is what std::io::Write::write or flush returns; the generator on the unchanged tree calls no flush (flush faults are enumerated as soon as it does)",
        "known_findings.json lists accepted findings; none suppresses a different key",
    ]);
    std::process::exit(report.finish(&paths));
}

fn run_dummy() -> Obs {
    Obs {
        result: "ok",
        err_text: String::new(),
        err_kind_matches: false,
        fired_failure: 0,
        fired_transient: 0,
        calls: 0,
        accepted: 0,
        complete: false,
        prefix_ok: true,
        first_failure_call: None,
        site: None,
        panic_loc: String::new(),
    }
}
