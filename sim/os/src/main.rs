//! OS engine (DESIGN.md 4.4) – decides C17: the real `zeep` binary on a simulated OS boundary.
//!
//! Real code: the zeep binary built from the working tree (clap, std, zeep-lib). Simulated: libverifsim.so
//! (entropy, directory order, syscall faults, trace). One case = one tape; a case is run under the reference
//! spelling (absolute path) and under the tape-chosen spelling.

use simkernel::cli::{self, CliRun, FaultAction, FaultSpec, PlanSpec, Scratch};
use simkernel::inputs::{extra_entries, input_sets, InputSet};
use std::borrow::Cow;
use simkernel::serde_json::{json, Value};
use simkernel::{Chooser, Report, Rng, Violation};
use std::collections::{BTreeMap, HashMap, HashSet};
use std::path::{Path, PathBuf};
use std::sync::atomic::{AtomicUsize, Ordering};
use std::sync::Mutex;
use zeep_lib::reader::{WriteXml, XmlReader};
use zeep_lib::utils::read_input_file_and_xsd_files_at_path;

const PROPERTY: &str = "C17";
const ENGINE: &str = "os";

const SPELLINGS: [&str; 10] = ["absolute", "relative-with-dir", "dot-slash", "bare-name", "dotdot-dir", "double-slash", "dir-dot-name", "dir-sub-dotdot-name", "symlink-dotdot (other/lnk/../name, lnk -> ../w/sub)", "nonexistent-dotdot (w/nonexistent/../name: not a valid path)"];
const OUTPUTS: [&str; 4] = ["default", "-o absolute same dir", "-o relative", "-o absolute other dir"];
const PRE: [&str; 8] = ["absent", "shorter", "longer", "same-length", "longer-by-3", "expected+newline", "expected+blank-lines", "expected-with-one-byte-changed"];
const EXTRAS: [&str; 10] = ["none", "valid unrelated .xsd", "malformed .xsd", "non-schema .xsd", "14 unrelated files", "hidden .xsd", "upper-case .XSD", "empty .xsd", "directory named *.xsd", "256 unreadable .xsd files"];

/// (symbol, class, max index explored in seeded mode, actions)
fn targets() -> Vec<(&'static str, &'static str, u64, Vec<FaultAction>)> {
    use FaultAction::{Errno as E, Short as S};
    vec![
        ("open", "input", 1, vec![E(2), E(13), E(24), E(5), E(4)]),
        ("open", "sibling", 4, vec![E(2), E(13), E(24), E(5), E(4)]),
        ("open", "output", 1, vec![E(13), E(30), E(28), E(21), E(4)]),
        ("read", "input", 3, vec![E(5), E(4), S(1), S(100)]),
        ("read", "sibling", 8, vec![E(5), E(4), S(1), S(100)]),
        ("write", "output", 700, vec![E(28), E(5), E(122), E(27), E(4), S(1), S(7), S(4096), S(65536)]),
        ("close", "output", 1, vec![E(5)]),
        // a tool that stages its output in a temporary file and renames it (none of these calls exist on HEAD)
        ("write", "outtmp", 700, vec![E(28), E(5), E(4), S(1), S(7), S(4096), S(65536)]),
        ("close", "outtmp", 1, vec![E(5)]),
        ("open", "outtmp", 1, vec![E(13), E(28)]),
        ("rename", "output", 1, vec![E(18), E(13), E(28), E(5)]),
        ("fsync", "output", 1, vec![E(5), E(28)]),
        ("fsync", "outtmp", 1, vec![E(5), E(28)]),
        ("ftruncate", "output", 1, vec![E(5), E(27)]),
        ("close", "input", 1, vec![E(5)]),
        ("opendir", "dir", 1, vec![E(13), E(20), E(24)]),
        ("readdir", "dir", 9, vec![E(5), E(13)]),
        ("stat", "input", 3, vec![E(13), E(5)]),
        ("stat", "sibling", 8, vec![E(13), E(5)]),
        ("fstat", "input", 1, vec![E(5)]),
        ("fstat", "sibling", 4, vec![E(5)]),
    ]
}

#[derive(Clone, Debug)]
struct Case {
    input: usize,
    spelling: u64,
    output: u64,
    pre: u64,
    extra: u64,
    #[allow(dead_code)]
    longflags: bool,
    /// 0: `-i P -o Q`; 1: `--input P --output Q`; 2: `--input=P --output=Q`; 3: `-iP -oQ`
    arg_form: u64,
    entropy: u64,
    dirperm: u64,
    fault: Option<FaultSpec>,
    /// 0: file names as in the set; 1: start file has two dots (`name.v2.wsdl`); 2: start file name contains a blank
    name_style: u64,
    /// 0: regular files; 1: the sibling files are symbolic links into another directory; 2: the input directory is
    /// reached through a symbolic link
    link_style: u64,
    /// the tool's stderr is /dev/full: every diagnostic write fails with ENOSPC
    stderr_full: bool,
    /// RUST_LOG: 0 unset, 1 debug, 2 trace
    rust_log: u64,
    /// TMPDIR of the tool: 0 a private directory of this run; 1 the directory of the output; 2 "."
    tmpdir: u64,
    /// 0: sibling files keep their names; 1: every imported sibling is renamed `name-1.0.xsd` (the schemaLocations are
    /// rewritten accordingly): names with more than one dot
    sib_style: u64,
    /// PWD in the tool's environment: 0 unset; 1 the real working directory; 2 another directory (a stale PWD)
    pwd_env: u64,
    /// after the (possibly faulted or failing) run, the tool is started again in the SAME tree without any fault:
    /// whatever the first run left behind (partial output, temporary files) must not change the second result
    rerun: bool,
}

const NAME_STYLES: [&str; 7] = ["as-is", "two-dots", "blank-in-name", "non-ascii-name", "upper-case extension", "no extension", "leading dot"];
const LINK_STYLES: [&str; 3] = ["regular files", "siblings are symlinks", "directory reached through a symlink"];

fn arg_form_name(k: u64) -> &'static str {
    ["-i P -o Q", "--output Q --input P", "--input=P --output=Q", "-oQ -iP", "-i=P -o=Q"][k as usize % 5]
}

fn pwd_name(k: u64) -> &'static str {
    ["unset", "the real working directory", "another directory (stale)"][k as usize % 3]
}

fn tmpdir_name(k: u64) -> &'static str {
    ["private to the run", "the output's directory", "."][k as usize % 3]
}

fn rust_log_name(k: u64) -> &'static str {
    ["(unset)", "debug", "trace"][k as usize % 3]
}

fn styled_start(start: &str, name_style: u64) -> String {
    let p = Path::new(start);
    let stem = p.file_stem().map(|s| s.to_string_lossy().to_string()).unwrap_or_default();
    let ext = p.extension().map(|s| s.to_string_lossy().to_string()).unwrap_or_default();
    match name_style {
        1 => format!("{stem}.v2.{ext}"),
        2 => format!("{stem} copy-1.{ext}"),
        3 => format!("{stem}-sch\u{e9}ma-\u{4e16}.{ext}"),
        4 => format!("{stem}.{}", ext.to_uppercase()),
        5 => stem,
        6 => format!(".{stem}.{ext}"),
        _ => start.to_string(),
    }
}

fn decode_case(ch: &mut Chooser, nsets: usize) -> Case {
    let input = ch.choose("input", nsets as u64) as usize;
    let spelling = ch.choose("spelling", 10);
    let output = ch.choose("output", 4);
    let pre = ch.choose("preexisting", 8);
    let extra = ch.choose("extra_sibling", 10);
    let arg_form = ch.choose("argument_form", 5);
    let longflags = arg_form == 1;
    let entropy = ch.choose("entropy", u64::MAX);
    let dirperm = ch.choose("dirperm", u64::MAX);
    let fault = if ch.choose("faults", 2) == 1 {
        let t = targets();
        let ti = ch.choose("fault_target", t.len() as u64) as usize;
        // most symbols are called a handful of times: three of four draws stay below 4
        let idx = if ch.choose("fault_index_small", 4) != 0 { ch.choose("fault_index", t[ti].2.clamp(1, 4)) } else { ch.choose("fault_index", t[ti].2.max(1)) };
        let ai = ch.choose("fault_action", t[ti].3.len() as u64) as usize;
        Some(FaultSpec { sym: t[ti].0, cls: t[ti].1, idx, action: t[ti].3[ai].clone() })
    } else {
        None
    };
    let name_style = ch.choose_wide("name_style", 4, NAME_STYLES.len() as u64);
    let link_style = ch.choose("link_style", 3);
    let stderr_full = ch.choose("stderr_is_dev_full", 2) == 1;
    let rust_log = ch.choose("rust_log", 3);
    let tmpdir = ch.choose("tmpdir", 3);
    let sib_style = ch.choose("sibling_name_style", 2);
    let rerun = ch.choose("rerun_in_same_tree", 2) == 1;
    let pwd_env = ch.choose("pwd_env", 3);
    Case { input, spelling, output, pre, extra, longflags, arg_form, entropy, dirperm, fault, name_style, link_style, stderr_full, rust_log, tmpdir, sib_style, rerun, pwd_env }
}

fn encode_case(c: &Case) -> Vec<u64> {
    let mut t = vec![c.input as u64, c.spelling, c.output, c.pre, c.extra, c.arg_form, c.entropy, c.dirperm];
    if let Some(f) = &c.fault {
        let ts = targets();
        let ti = ts.iter().position(|x| x.0 == f.sym && x.1 == f.cls).unwrap_or(0);
        let ai = ts[ti].3.iter().position(|a| *a == f.action).unwrap_or(0);
        t.extend([1, ti as u64, 0, f.idx, ai as u64]);
    } else {
        t.push(0);
    }
    t.extend([c.name_style, c.link_style, u64::from(c.stderr_full), c.rust_log, c.tmpdir, c.sib_style, u64::from(c.rerun), c.pwd_env]);
    t
}

// ------------------------------------------------------------------------------------------------
// reference: what the library produces for the same file set

#[derive(Clone, Debug, PartialEq)]
enum Expected {
    Bytes(Vec<u8>),
    Fails(String),
    Unstable,
}

fn lib_run(dir: &Path, start: &str, entropy: u64) -> Result<Vec<u8>, String> {
    let p = dir.join(start);
    std::thread::scope(|s| {
        s.spawn(move || {
            simkernel::shim::thread_entropy(entropy, 0x11b);
            let r = simkernel::panics::catch(|| -> Result<Vec<u8>, String> {
                let files = read_input_file_and_xsd_files_at_path(&p).map_err(|e| format!("{e}"))?;
                let doc = XmlReader::read_xml(&files).map_err(|e| format!("{e}"))?;
                let mut out = Vec::new();
                doc.write_xml(&mut out).map_err(|e| format!("{e}"))?;
                Ok(out)
            });
            match r {
                Ok(x) => x,
                Err((m, l)) => Err(format!("library panicked: {m} at {l}")),
            }
        })
        .join()
        .unwrap_or_else(|_| Err("thread".into()))
    })
}

fn materialise(dir: &Path, set: &InputSet, extra: u64) {
    materialise_styled(dir, set, extra, 0, 0, 0);
}

fn sibling_name(n: &str, sib_style: u64) -> String {
    match (sib_style, n.strip_suffix(".xsd")) {
        (1, Some(stem)) => format!("{stem}-1.0.xsd"),
        _ => n.to_string(),
    }
}

fn materialise_styled(dir: &Path, set: &InputSet, extra: u64, name_style: u64, link_style: u64, sib_style: u64) {
    let _ = std::fs::create_dir_all(dir);
    let store = dir.parent().map(|p| p.join("store"));
    for (n, b) in &set.files {
        let name = if n == &set.start { styled_start(n, name_style) } else { sibling_name(n, sib_style) };
        // renamed siblings: rewrite the schemaLocations that name them (text files only)
        let b: Cow<[u8]> = if sib_style == 1 {
            match std::str::from_utf8(b) {
                Ok(t) => {
                    let mut t = t.to_string();
                    for (o, _) in &set.files {
                        if o != &set.start && o.ends_with(".xsd") {
                            t = t.replace(&format!("schemaLocation=\"{o}\""), &format!("schemaLocation=\"{}\"", sibling_name(o, 1)));
                        }
                    }
                    Cow::Owned(t.into_bytes())
                }
                Err(_) => Cow::Borrowed(b.as_slice()),
            }
        } else {
            Cow::Borrowed(b.as_slice())
        };
        let b = b.as_ref();
        if link_style == 1 && n != &set.start {
            if let Some(st) = &store {
                let _ = std::fs::create_dir_all(st);
                let _ = std::fs::write(st.join(&name), b);
                let _ = std::os::unix::fs::symlink(st.join(&name), dir.join(&name));
                continue;
            }
        }
        let _ = std::fs::write(dir.join(name), b);
    }
    for (n, b, is_dir) in extra_entries(extra) {
        if is_dir {
            let _ = std::fs::create_dir_all(dir.join(n));
        } else {
            let _ = std::fs::write(dir.join(n), b);
        }
    }
}

static EXPECT_CACHE: Mutex<Option<HashMap<(usize, u64), Expected>>> = Mutex::new(None);

/// The reference is computed from regular files with the set's own names: the statement says the result depends on
/// the file contents only, so renamed or symlinked files must give the same bytes.
fn expected_for(sets: &[InputSet], input: usize, extra: u64) -> Expected {
    if let Some(e) = EXPECT_CACHE.lock().unwrap().get_or_insert_with(HashMap::new).get(&(input, extra)) {
        return e.clone();
    }
    let sc = Scratch::new("libref");
    let dir = sc.path.join("w");
    materialise(&dir, &sets[input], extra);
    let runs: Vec<Result<Vec<u8>, String>> = [1u64, 0x9e37_79b9, 0xdead_beef_0bad_cafe, 77].iter().map(|e| lib_run(&dir, &sets[input].start, *e)).collect();
    let e = if runs.iter().all(|r| *r == runs[0]) {
        match &runs[0] {
            Ok(b) => Expected::Bytes(b.clone()),
            Err(t) => Expected::Fails(t.clone()),
        }
    } else {
        Expected::Unstable
    };
    EXPECT_CACHE.lock().unwrap().get_or_insert_with(HashMap::new).insert((input, extra), e.clone());
    e
}

// ------------------------------------------------------------------------------------------------
// one run of the binary

#[derive(Clone, Debug)]
struct RunObs {
    cli: CliRun,
    out_path_rel: String,
    out_after: Option<Vec<u8>>,
    pre_bytes: Option<Vec<u8>>,
    stray_changes: Vec<String>,
    args: Vec<String>,
    cwd_rel: String,
    /// second, fault-free execution in the same tree: (exit code, output bytes)
    rerun: Option<(Option<i32>, Option<Vec<u8>>)>,
}

fn snapshot(root: &Path) -> BTreeMap<String, u64> {
    let mut m = BTreeMap::new();
    let mut stack = vec![root.to_path_buf()];
    while let Some(d) = stack.pop() {
        if let Ok(rd) = std::fs::read_dir(&d) {
            for e in rd.flatten() {
                let p = e.path();
                if p.symlink_metadata().is_ok_and(|m| m.file_type().is_symlink()) && p.is_dir() {
                    continue; // a linked directory is the same files again
                }
                if p.is_dir() {
                    stack.push(p);
                } else if let Ok(b) = std::fs::read(&p) {
                    m.insert(p.strip_prefix(root).unwrap_or(&p).to_string_lossy().to_string(), simkernel::hash_bytes(&b));
                }
            }
        }
    }
    m
}

fn sentinel(len: usize) -> Vec<u8> {
    b"// OLD-OUTPUT-SENTINEL keep me\n".iter().cycle().take(len).copied().collect()
}

fn run_once(sets: &[InputSet], c: &Case, spelling: u64, expected: &Expected) -> RunObs {
    let set = &sets[c.input];
    let sc = Scratch::new("os");
    let top = sc.path.clone();
    let w = top.join("w");
    let outdir = top.join("outdir");
    materialise_styled(&w, set, c.extra, c.name_style, c.link_style, c.sib_style);
    let _ = std::fs::create_dir_all(&outdir);
    // the directory as the tool is told about it: `w`, or the symbolic link `wl -> w`
    let (w, wname) = if c.link_style == 2 {
        let _ = std::os::unix::fs::symlink("w", top.join("wl"));
        (top.join("wl"), "wl")
    } else {
        (w, "w")
    };
    let start = &styled_start(&set.start, c.name_style);
    let (cwd, spelled): (PathBuf, String) = match spelling {
        0 => (top.clone(), w.join(start).to_string_lossy().to_string()),
        1 => (top.clone(), format!("{wname}/{start}")),
        2 => (w.clone(), format!("./{start}")),
        3 => (w.clone(), start.clone()),
        4 => (w.clone(), format!("../{wname}/{start}")),
        5 => (top.clone(), format!("{wname}//{start}")),
        6 => (top.clone(), format!("{wname}/./{start}")),
        7 => {
            let _ = std::fs::create_dir_all(w.join("sub"));
            (top.clone(), format!("{wname}/sub/../{start}"))
        }
        8 => {
            // `other/lnk` is a symbolic link to `w/sub`: the operating system resolves `other/lnk/..` to `w`;
            // folding the path textually would give `other/<name>`, which does not exist
            let _ = std::fs::create_dir_all(w.join("sub"));
            let _ = std::fs::create_dir_all(top.join("other"));
            let _ = std::os::unix::fs::symlink(format!("../{wname}/sub"), top.join("other/lnk"));
            (top.clone(), format!("other/lnk/../{start}"))
        }
        _ => (top.clone(), format!("{wname}/nonexistent/../{start}")),
    };
    // spelling 9 names no file (the kernel fails on the missing component): the tool must fail like the library does
    let invalid_spelling = spelling == 9;
    let stem_rs = Path::new(start).with_extension("rs").to_string_lossy().to_string();
    let (out_abs, out_arg): (PathBuf, Option<String>) = match c.output {
        0 => (w.join(&stem_rs), None),
        1 => (w.join("out_abs.rs"), Some(w.join("out_abs.rs").to_string_lossy().to_string())),
        2 => (cwd.join("rel_out.rs"), Some("rel_out.rs".to_string())),
        _ => (outdir.join("o.rs"), Some(outdir.join("o.rs").to_string_lossy().to_string())),
    };
    let pre_bytes = match c.pre {
        0 => None,
        1 => Some(sentinel(64)),
        k => {
            let base = match expected {
                Expected::Bytes(b) => b.len(),
                _ => 200_000,
            };
            let exp = match expected {
                Expected::Bytes(b) => b.clone(),
                _ => sentinel(2000),
            };
            Some(match k {
                2 => sentinel(base + 4096),
                3 => sentinel(base),
                4 => sentinel(base + 3),
                5 => [exp.as_slice(), b"\n"].concat(),
                6 => [exp.as_slice(), b"  \n\t\n\n"].concat(),
                _ => {
                    let mut e = exp;
                    let m = e.len() / 2;
                    e[m] = if e[m] == b'x' { b'y' } else { b'x' };
                    e
                }
            })
        }
    };
    let pre_bytes = if invalid_spelling && c.output == 0 { None } else { pre_bytes }; // no file can pre-exist at a path that does not resolve
    if let Some(b) = &pre_bytes {
        let _ = std::fs::write(&out_abs, b);
    }
    let mut args = Vec::new();
    let mut push_opt = |short: &str, long: &str, val: String| match c.arg_form {
        0 => args.extend([short.to_string(), val]),
        1 => args.extend([long.to_string(), val]),
        2 => args.push(format!("{long}={val}")),
        3 => args.push(format!("{short}{val}")),
        _ => args.push(format!("{short}={val}")),
    };
    // the output option first in half of the forms: the order of options is not part of the input either
    if c.arg_form % 2 == 1 {
        if let Some(o) = out_arg.clone() {
            push_opt("-o", "--output", o);
        }
        push_opt("-i", "--input", spelled);
    } else {
        push_opt("-i", "--input", spelled);
        if let Some(o) = out_arg.clone() {
            push_opt("-o", "--output", o);
        }
    }
    // the stray-file probe walks and reads the whole scratch tree twice: done for one case in four (by tape, so
    // that it is the same cases in every run)
    let probe_stray = (c.input as u64 + c.spelling + c.output + c.pre + c.extra + c.dirperm % 7) % 4 == 0;
    let before = if probe_stray { snapshot(&top) } else { BTreeMap::new() };
    let plan = PlanSpec {
        root: top.clone(),
        input: w.join(start),
        output: out_abs.clone(),
        dir: w.clone(),
        entropy: (c.entropy, 0x05),
        dirperm: c.dirperm,
        dirorder: vec![],
        faults: c.fault.iter().cloned().collect(),
        stderr_full: c.stderr_full,
        rust_log: [None, Some("debug"), Some("trace")][c.rust_log as usize % 3],
        // clock and pid follow the entropy choice: two cases differ in them, the two runs of one case do not
        clock_base: if c.entropy == 0 { 0 } else { 1_000_000_000 + c.entropy % 3_000_000_000 },
        pid: if c.entropy == 0 { 0 } else { 2 + c.entropy % 4_000_000 },
        extra_env: {
            let mut env: Vec<(String, String)> = if c.entropy == 0 { vec![] } else { vec![("USER".into(), format!("user{}", c.entropy % 97)), ("HOME".into(), format!("/home/u{}", c.entropy % 89)), ("LANG".into(), ["C", "de_DE.UTF-8"][(c.entropy % 2) as usize].into())] };
            match c.pwd_env {
                1 => env.push(("PWD".into(), cwd.to_string_lossy().to_string())),
                2 => env.push(("PWD".into(), outdir.to_string_lossy().to_string())), // stale: the shell's idea, not the process's
                _ => {}
            }
            env
        },
        tmpdir: Some(match c.tmpdir {
            1 => out_abs.parent().map_or_else(|| top.clone(), Path::to_path_buf),
            2 => PathBuf::from("."),
            _ => {
                let t = top.join("tmp");
                let _ = std::fs::create_dir_all(&t);
                t
            }
        }),
    };
    let run = cli::run_zeep(&top, &cwd, &args, &plan, "r");
    let out_after = std::fs::read(&out_abs).ok();
    let rerun = if c.rerun {
        let mut clean = plan.clone();
        clean.faults.clear();
        let r2 = cli::run_zeep(&top, &cwd, &args, &clean, "r2");
        Some((r2.exit_code, std::fs::read(&out_abs).ok()))
    } else {
        None
    };
    let after = if probe_stray { snapshot(&top) } else { BTreeMap::new() };
    let out_rel = out_abs.strip_prefix(&top).unwrap_or(&out_abs).to_string_lossy().to_string();
    let mut stray = Vec::new();
    let out_real = out_rel.replacen("wl/", "w/", 1); // the same file seen through the real directory
    for (k, v) in &after {
        if k == &out_rel || k == &out_real || k.starts_with("plan-") || k.starts_with("trace-") {
            continue;
        }
        if before.get(k) != Some(v) {
            stray.push(k.clone());
        }
    }
    for k in before.keys() {
        if !after.contains_key(k) && k != &out_rel && k != &out_real && !k.starts_with("plan-") && !k.starts_with("trace-") {
            stray.push(format!("deleted:{k}"));
        }
    }
    RunObs {
        cli: run,
        out_path_rel: out_rel,
        out_after,
        pre_bytes,
        stray_changes: stray,
        args: args.iter().map(|a| a.replace(&*top.to_string_lossy(), "<TOP>")).collect(),
        cwd_rel: cwd.strip_prefix(&top).map_or("<TOP>".into(), |p| format!("<TOP>/{}", p.display())),
        rerun,
    }
}

// ------------------------------------------------------------------------------------------------
// oracle O1–O4

#[derive(Clone, Debug)]
struct Finding {
    class: String,
    key: String,
    detail: String,
}

fn fault_tag(c: &Case, r: &RunObs) -> String {
    match &c.fault {
        Some(f) if !r.cli.injected().is_empty() => format!("{}({}):{}", f.sym, f.cls, match &f.action {
            FaultAction::Errno(e) => cli::errno_name(*e).to_string(),
            FaultAction::Short(_) => "short".to_string(),
        }),
        _ => "none".to_string(),
    }
}

fn judge_run(sets: &[InputSet], c: &Case, spelling: u64, r: &RunObs, expected: &Expected) -> Vec<Finding> {
    let mut f = Vec::new();
    let set = &sets[c.input];
    let sp = SPELLINGS[spelling as usize];
    let fired = !r.cli.injected().is_empty();
    let stage = set.stage.unwrap_or("none");
    if r.cli.timed_out {
        f.push(Finding { class: "hang".into(), key: format!("hang:input={}", set.name), detail: "the binary did not exit".into() });
        return f;
    }
    if r.cli.success() {
        // O1 + O3
        match (&r.out_after, expected) {
            (None, _) => f.push(Finding {
                class: "output-missing".into(),
                key: format!("output-missing:output={}", OUTPUTS[c.output as usize]),
                detail: format!("exit 0 but no file at {} (spelling {sp})", r.out_path_rel),
            }),
            // A fault that makes `is_file()` answer false hides that sibling from the tool: the effective file set is
            // then not the one the reference was computed for, so "the library fails on this input" says nothing.
            (Some(_), Expected::Fails(_)) if fired && c.fault.as_ref().is_some_and(|x| x.sym == "stat" && x.cls == "sibling") => {}
            (Some(_), Expected::Fails(t)) => f.push(Finding {
                class: "false-success".into(),
                key: if spelling == 9 { "false-success:spelling=nonexistent-dotdot".to_string() } else { format!("false-success:stage={stage}") },
                detail: format!("exit 0 although the library fails on this input with: {t}"),
            }),
            (Some(b), Expected::Bytes(e)) if b != e => {
                let stale = b.len() > e.len() && b.starts_with(e);
                let class = if stale { "stale-tail" } else if fired { "wrong-bytes-after-fault" } else { "wrong-bytes" };
                f.push(Finding {
                    class: class.into(),
                    key: if fired { format!("{class}:fault={}", fault_tag(c, r)) } else { format!("{class}:pre={}", PRE[c.pre as usize]) },
                    detail: format!("exit 0 but the output ({} bytes) differs from the library's {} bytes (input {}, spelling {sp}, pre-existing {})", b.len(), e.len(), set.name, PRE[c.pre as usize]),
                });
            }
            _ => {}
        }
    } else {
        // failed run
        if !fired && matches!(expected, Expected::Bytes(_)) {
            f.push(Finding {
                class: "spurious-failure".into(),
                key: format!("spurious-failure:spelling={sp}"),
                detail: format!("exit {:?} without any injected fault although the library generates this input ({}); stderr: {}", r.cli.exit_code, set.name, r.cli.stderr.replace('\n', " ")),
            });
        }
        // O4: the old output survives every failure that is not a failure of writing the output itself
        if let Some(pre) = &r.pre_bytes {
            if !r.cli.output_write_fault_fired() && r.out_after.as_ref() != Some(pre) {
                let what = if set.stage.is_some() || !fired { format!("stage={stage}") } else { format!("fault={}", fault_tag(c, r)) };
                f.push(Finding {
                    class: "old-output-clobbered".into(),
                    key: format!("old-output-clobbered:{what}"),
                    detail: format!("exit {:?} and the pre-existing output ({} bytes) is now {:?} bytes (input {}, spelling {sp})", r.cli.exit_code, pre.len(), r.out_after.as_ref().map(Vec::len), set.name),
                });
            }
        }
    }
    // recovery: a second, fault-free start in the same tree must give exactly the library's result
    if let Some((code, bytes)) = &r.rerun {
        let first = if fired { format!("fault={}", fault_tag(c, r)) } else if r.cli.success() { "success".to_string() } else { format!("stage={stage}") };
        match expected {
            Expected::Bytes(e) => {
                if *code != Some(0) || bytes.as_ref() != Some(e) {
                    f.push(Finding {
                        class: "rerun-differs".into(),
                        key: format!("rerun-differs:after-{first}"),
                        detail: format!("a second, fault-free run in the same tree exits {code:?} with {:?} bytes (library: {} bytes); first run: exit {:?}, {first} (input {}, spelling {sp})", bytes.as_ref().map(Vec::len), e.len(), r.cli.exit_code, set.name),
                    });
                }
            }
            Expected::Fails(_) => {
                if *code == Some(0) {
                    f.push(Finding { class: "rerun-false-success".into(), key: format!("rerun-false-success:stage={stage}"), detail: format!("the second run in the same tree exits 0 although generation fails on this input ({})", set.name) });
                }
            }
            Expected::Unstable => {}
        }
    }
    f
}

fn fired_signature(r: &RunObs) -> Vec<String> {
    r.cli
        .injected()
        .iter()
        .map(|l| {
            let w: Vec<&str> = l.split_whitespace().collect();
            let base = w.iter().find_map(|t| t.strip_prefix("path=")).map(|p| p.rsplit('/').next().unwrap_or("").to_string()).unwrap_or_default();
            format!("{} {} {} {}", w.get(1).unwrap_or(&""), w.get(2).unwrap_or(&""), w.get(3).unwrap_or(&""), base)
        })
        .collect()
}

struct CaseResult {
    findings: Vec<Finding>,
    runs: Vec<(u64, RunObs)>,
    expected: Expected,
}

fn run_case(sets: &[InputSet], c: &Case) -> CaseResult {
    let expected = expected_for(sets, c.input, c.extra);
    let mut findings = Vec::new();
    let r0 = run_once(sets, c, 0, &expected);
    let f0 = judge_run(sets, c, 0, &r0, &expected);
    let mut runs = vec![(0u64, r0)];
    findings.extend(f0.clone());
    if c.spelling != 0 {
        // a spelling that names no file must fail, like the library's own path handling does
        let exp1 = if c.spelling == 9 { Expected::Fails("the spelled path does not resolve to a file".into()) } else { expected.clone() };
        let r1 = run_once(sets, c, c.spelling, &exp1);
        let f1 = judge_run(sets, c, c.spelling, &r1, &exp1);
        // O2: same outcome and bytes for every spelling
        // (under a fault plan the comparison is meaningful only if the fault landed on the same call of the same file:
        // spellings may legitimately shift call indices, e.g. a relative -o file living in the scanned directory)
        if c.spelling != 9 && f0.is_empty() && f1.is_empty() && fired_signature(&runs[0].1) == fired_signature(&r1) {
            let a = &runs[0].1;
            let same = a.cli.success() == r1.cli.success() && (!a.cli.success() || a.out_after == r1.out_after);
            if !same {
                findings.push(Finding {
                    class: "spelling-differs".into(),
                    key: format!("spelling-differs:spelling={}", SPELLINGS[c.spelling as usize]),
                    detail: format!("absolute path: exit {:?}; {}: exit {:?}; outputs equal: {}", a.cli.exit_code, SPELLINGS[c.spelling as usize], r1.cli.exit_code, a.out_after == r1.out_after),
                });
            }
        }
        findings.extend(f1);
        runs.push((c.spelling, r1));
    }
    // A finding observed while a fault was injected may have nothing to do with that fault: re-run the case without
    // it, and if the same class of finding appears there, report it under the fault-free key (one defect, one key).
    if c.fault.is_some() && !findings.is_empty() && findings.iter().any(|f| f.key.contains("fault=")) {
        let mut c2 = c.clone();
        c2.fault = None;
        let plain = run_case(sets, &c2);
        for f in &mut findings {
            if let Some(g) = plain.findings.iter().find(|g| g.class == f.class || (f.class == "wrong-bytes-after-fault" && g.class == "wrong-bytes")) {
                f.key = g.key.clone();
                f.class = g.class.clone();
            }
        }
    }
    CaseResult { findings, runs, expected }
}

fn case_json(sets: &[InputSet], c: &Case) -> Value {
    json!({
        "input_set": sets[c.input].name, "stage": sets[c.input].stage, "start_file": sets[c.input].start,
        "files": sets[c.input].files.iter().map(|(n, b)| json!({"name": n, "bytes": b.len(), "hash": format!("{:016x}", simkernel::hash_bytes(b))})).collect::<Vec<_>>(),
        "spelling": SPELLINGS[c.spelling as usize], "output": OUTPUTS[c.output as usize], "preexisting_output": PRE[c.pre as usize],
        "extra_entries": EXTRAS[c.extra as usize], "stderr": if c.stderr_full { "/dev/full" } else { "pipe" }, "RUST_LOG": rust_log_name(c.rust_log), "TMPDIR": tmpdir_name(c.tmpdir), "second_run_in_same_tree": c.rerun, "PWD": pwd_name(c.pwd_env), "sibling_names": if c.sib_style == 1 { "renamed name-1.0.xsd" } else { "as in the set" }, "argument_form": arg_form_name(c.arg_form), "start_file_name": styled_start(&sets[c.input].start, c.name_style), "name_style": NAME_STYLES[c.name_style as usize], "link_style": LINK_STYLES[c.link_style as usize],
        "entropy": format!("{:x}", c.entropy), "dirperm": c.dirperm,
        "fault": c.fault.as_ref().map(FaultSpec::describe),
    })
}

fn run_json(spelling: u64, r: &RunObs) -> Value {
    let tr: Vec<&String> = r.cli.trace.iter().filter(|l| !l.contains(" write output") || l.contains("!inj")).take(60).collect();
    json!({
        "spelling": SPELLINGS[spelling as usize], "cwd": r.cwd_rel, "args": r.args, "exit_code": r.cli.exit_code, "signal": r.cli.killed_by_signal,
        "stderr": r.cli.stderr, "output_path": r.out_path_rel, "output_len": r.out_after.as_ref().map(Vec::len),
        "output_hash": r.out_after.as_ref().map(|b| format!("{:016x}", simkernel::hash_bytes(b))),
        "preexisting_len": r.pre_bytes.as_ref().map(Vec::len), "stray_changes": r.stray_changes,
        "injected": r.cli.injected(), "second_run": r.rerun.as_ref().map(|(c, b)| json!({"exit": c, "output_len": b.as_ref().map(Vec::len)})), "trace_without_plain_output_writes": tr,
    })
}

// ------------------------------------------------------------------------------------------------
// batches

#[derive(Default)]
struct Stats {
    cases: u64,
    runs: u64,
    fired: BTreeMap<String, u64>,
    probes: BTreeMap<String, u64>,
    signatures: HashSet<u64>,
    found: Vec<(Vec<u64>, Finding)>,
    samples: Vec<Value>,
    digest: u64,
}

fn bump(m: &mut BTreeMap<String, u64>, k: &str) {
    *m.entry(k.to_string()).or_insert(0) += 1;
}

fn run_batch(sets: &[InputSet], tapes: &[Vec<u64>]) -> Stats {
    let next = AtomicUsize::new(0);
    let out = Mutex::new(Stats::default());
    std::thread::scope(|s| {
        for _ in 0..simkernel::workers() {
            s.spawn(|| {
                let mut st = Stats::default();
                loop {
                    let i = next.fetch_add(1, Ordering::Relaxed);
                    if i >= tapes.len() {
                        break;
                    }
                    let mut ch = Chooser::replay(tapes[i].clone());
                    let c = decode_case(&mut ch, sets.len());
                    let t_case = std::time::Instant::now();
                    let res = run_case(sets, &c);
                    if std::env::var_os("VERIF_OS_PROFILE").is_some() {
                        let ms = t_case.elapsed().as_millis();
                        if ms > 60 {
                            eprintln!("SLOW {ms}ms input={} extra={} pre={} link={} sib={} fault={:?} spelling={}", sets[c.input].name, c.extra, c.pre, c.link_style, c.sib_style, c.fault.as_ref().map(|f| f.describe()), c.spelling);
                        }
                    }
                    st.cases += 1;
                    st.runs += res.runs.len() as u64;
                    let mut sig = 0u64;
                    for v in &tapes[i] {
                        sig = sig.rotate_left(11) ^ v.wrapping_mul(0x9e37_79b9_7f4a_7c15);
                    }
                    let nontrivial = c.fault.is_some() || c.name_style != 0 || c.link_style != 0 || c.spelling != 0 || c.pre != 0 || c.output != 0 || sets[c.input].stage.is_some();
                    if nontrivial {
                        st.signatures.insert(sig);
                    }
                    let mut d = i as u64;
                    for (sp, r) in &res.runs {
                        d = d.rotate_left(7) ^ sp ^ (r.cli.exit_code.unwrap_or(-1) as u64) << 8 ^ r.out_after.as_ref().map_or(1, |b| simkernel::hash_bytes(b));
                        for l in &r.cli.trace {
                            d = d.rotate_left(3) ^ simkernel::fnv(l);
                        }
                        for l in r.cli.injected() {
                            let w: Vec<&str> = l.split_whitespace().collect();
                            if w.len() > 2 {
                                bump(&mut st.fired, &format!("{}({})", w[1], w[2]));
                            }
                            if l.contains("errno 4 ") {
                                bump(&mut st.fired, "EINTR");
                            } else if l.contains("short") {
                                bump(&mut st.fired, "short-transfer");
                            } else {
                                bump(&mut st.fired, "hard-errno");
                            }
                        }
                        bump(&mut st.probes, if r.cli.success() { "runs_exit_zero" } else { "runs_exit_nonzero" });
                        if r.cli.killed_by_signal {
                            bump(&mut st.probes, "runs_killed_by_signal");
                            if st.samples.len() < 8 && !st.samples.iter().any(|s| s.get("killed_by_signal").is_some()) {
                                st.samples.push(json!({"killed_by_signal": true, "tape": ch.tape_json(), "case": case_json(sets, &c), "run": run_json(*sp, r)}));
                            }
                        }
                        if !r.stray_changes.is_empty() {
                            bump(&mut st.probes, "runs_with_stray_file_changes");
                            bump(&mut st.probes, &format!("stray:{}", r.stray_changes[0].chars().take(40).collect::<String>()));
                        }
                        if !r.cli.success() && r.pre_bytes.is_some() {
                            if r.cli.output_write_fault_fired() {
                                bump(&mut st.probes, if r.out_after == r.pre_bytes { "old_output_survives_write_fault" } else { "old_output_lost_on_write_fault(not gated)" });
                            } else if r.out_after == r.pre_bytes {
                                bump(&mut st.probes, "failed_runs_old_output_intact");
                            }
                        }
                        if r.cli.success() && !r.cli.injected().is_empty() {
                            bump(&mut st.probes, "runs_succeeding_despite_injected_fault");
                        }
                        if r.cli.success() && c.pre == 2 {
                            bump(&mut st.probes, "successful_runs_over_longer_old_file");
                        }
                        if r.cli.success() && c.pre >= 3 {
                            bump(&mut st.probes, "successful_runs_over_same_length_or_slightly_longer_old_file");
                        }
                    }
                    if res.expected == Expected::Unstable {
                        bump(&mut st.probes, "library_reference_unstable");
                    }
                    let mut t = d;
                    st.digest = st.digest.wrapping_add(simkernel::splitmix64(&mut t));
                    if i % (tapes.len() / 6 + 1) == 0 && st.samples.len() < 6 {
                        st.samples.push(json!({"tape": ch.tape_json(), "case": case_json(sets, &c), "runs": res.runs.iter().map(|(sp, r)| json!({"spelling": SPELLINGS[*sp as usize], "exit": r.cli.exit_code, "injected": r.cli.injected(), "output_len": r.out_after.as_ref().map(Vec::len)})).collect::<Vec<_>>() }));
                    }
                    for f in res.findings {
                        if st.found.len() < 2000 {
                            st.found.push((tapes[i].clone(), f));
                        }
                    }
                }
                let mut g = out.lock().unwrap();
                g.cases += st.cases;
                g.runs += st.runs;
                for (k, v) in st.fired {
                    *g.fired.entry(k).or_insert(0) += v;
                }
                for (k, v) in st.probes {
                    *g.probes.entry(k).or_insert(0) += v;
                }
                g.signatures.extend(st.signatures);
                g.found.extend(st.found);
                g.samples.extend(st.samples);
                g.samples.truncate(10);
                g.digest = g.digest.wrapping_add(st.digest);
            });
        }
    });
    out.into_inner().unwrap()
}

fn build_tapes(sets: &[InputSet], tier: &str, seed: u64) -> (Vec<Vec<u64>>, Value) {
    let thorough = tier == "thorough";
    let mut tapes = Vec::new();
    // (1) configuration product without faults
    let extras: Vec<u64> = if thorough { (0..10).collect() } else { std::env::var("VERIF_OS_EXTRAS").map_or(vec![0, 2, 4, 8, 9], |v| v.split(',').filter_map(|x| x.parse().ok()).collect()) };
    let mut n_cfg = 0u64;
    for input in 0..sets.len() {
        for spelling in 1..10u64 {
            for output in 0..4u64 {
                for pre in 0..8u64 {
                    for extra in &extras {
                        // quick: thin out by a fixed rule; thorough: everything
                        if !thorough && (input as u64 * 7 + spelling * 5 + output * 3 + pre + *extra) % 19 != 0 {
                            continue;
                        }
                        if !thorough && sets[input].name.starts_with("large-") && (spelling + output + pre) % 4 != 0 {
                            continue; // inputs above 1 MiB cost ~50 ms per run: a quarter of their product cells in quick
                        }
                        if *extra == 9 && (input > 1 || output > 0 || pre > 2) {
                            continue; // 256 files per run: a few cases are enough, the seeded mixes add more
                        }
                        let c = Case { input, spelling, output, pre, extra: *extra, longflags: (spelling + output) % 4 == 1, arg_form: (spelling + output + pre) % 5, entropy: 0, dirperm: if *extra == 2 { 7 } else { 0 }, fault: None, name_style: ((input as u64 + spelling) % 4) * u64::from((output + pre) % 2 == 0), link_style: ((spelling + pre + *extra) % 3) * u64::from((input as u64 + output) % 2 == 1), stderr_full: (input as u64 + spelling + pre) % 5 == 0, rust_log: (spelling + output + pre) % 3, tmpdir: (input as u64 + output + *extra) % 3, sib_style: (spelling + *extra) % 2, rerun: (input as u64 + pre) % 3 == 0, pwd_env: (spelling + output + *extra) % 3 };
                        tapes.push(encode_case(&c));
                        n_cfg += 1;
                    }
                }
            }
        }
    }
    // (1b) start-file names that only enumerated cases use (upper-case extension, no extension, leading dot): the default
    // output path is derived from the name, the sibling scan compares extensions and paths
    let mut n_names = 0u64;
    for input in 0..sets.len() {
        if sets[input].name.starts_with("large-") && !thorough {
            continue;
        }
        for name_style in 4..NAME_STYLES.len() as u64 {
            for (k, (spelling, output)) in [(3u64, 0u64), (1, 0), (2, 2), (0, 3)].into_iter().enumerate() {
                if !thorough && (input as u64 + name_style + k as u64) % 2 != 0 {
                    continue;
                }
                let pre = [2u64, 1, 0, 7][(input + k) % 4];
                let c = Case { input, spelling, output, pre, extra: [0u64, 1, 6][(input + k) % 3], longflags: false, arg_form: (name_style + k as u64) % 5, entropy: 0, dirperm: 0, fault: None, name_style, link_style: (input as u64 + name_style) % 3, stderr_full: false, rust_log: 0, tmpdir: k as u64 % 3, sib_style: (input as u64 + k as u64) % 2, rerun: k == 0, pwd_env: k as u64 % 3 };
                tapes.push(encode_case(&c));
                n_names += 1;
            }
        }
    }
    // (2) a fault at every intercepted call index of a few small scenarios
    let idx_of = |name: &str| sets.iter().position(|s| s.name == name);
    let mut scen = Vec::new();
    if let Some(i) = idx_of("tempconverter") {
        scen.push(Case { input: i, spelling: 2, output: 0, pre: 2, extra: 0, longflags: false, arg_form: 0, entropy: 0, dirperm: 0, fault: None, name_style: 0, link_style: 0, stderr_full: false, rust_log: 0, tmpdir: 0, sib_style: 0, rerun: true, pwd_env: 2 });
    }
    if let Some(i) = idx_of("chain") {
        scen.push(Case { input: i, spelling: 1, output: 2, pre: 1, extra: 1, longflags: true, arg_form: 1, entropy: 0, dirperm: 3, fault: None, name_style: 1, link_style: 1, stderr_full: false, rust_log: 1, tmpdir: 1, sib_style: 1, rerun: true, pwd_env: 1 });
    }
    if let Some(i) = idx_of("big-cwmp") {
        // an output larger than 64 KiB: a tool that writes in chunks is failed at each of its chunks
        scen.push(Case { input: i, spelling: 1, output: 1, pre: 2, extra: 0, longflags: false, arg_form: 0, entropy: 0, dirperm: 0, fault: None, name_style: 0, link_style: 0, stderr_full: false, rust_log: 0, tmpdir: 0, sib_style: 0, rerun: true, pwd_env: 2 });
    }
    if thorough {
        if let Some(i) = idx_of("hello") {
            scen.push(Case { input: i, spelling: 4, output: 3, pre: 0, extra: 0, longflags: false, arg_form: 0, entropy: 0, dirperm: 0, fault: None, name_style: 0, link_style: 0, stderr_full: false, rust_log: 0, tmpdir: 0, sib_style: 0, rerun: true, pwd_env: 2 });
        }
        if let Some(i) = idx_of("malformed-sibling") {
            scen.push(Case { input: i, spelling: 5, output: 1, pre: 2, extra: 0, longflags: false, arg_form: 0, entropy: 0, dirperm: 0, fault: None, name_style: 0, link_style: 0, stderr_full: false, rust_log: 0, tmpdir: 0, sib_style: 0, rerun: true, pwd_env: 2 });
        }
        if let Some(i) = idx_of("orders") {
            scen.push(Case { input: i, spelling: 1, output: 0, pre: 2, extra: 3, longflags: false, arg_form: 0, entropy: 0, dirperm: 5, fault: None, name_style: 2, link_style: 2, stderr_full: true, rust_log: 2, tmpdir: 2, sib_style: 0, rerun: true, pwd_env: 2 });
        }
    }
    let mut enumerated = Vec::new();
    for base in &scen {
        let expected = expected_for(sets, base.input, base.extra);
        let clean = run_once(sets, base, 0, &expected);
        let mut n_faults = 0u64;
        for (sym, cls, _, actions) in targets() {
            let calls = clean.cli.count(sym, cls) as u64;
            // one index past the last observed call too: the fault must simply not fire there
            for idx in 0..calls {
                // quick: every index for everything but plain output writes, which are thinned to every 3rd + the first 40
                if !thorough && sym == "write" && idx > 40 && idx % 3 != 0 {
                    continue;
                }
                for a in &actions {
                    let mut c = base.clone();
                    c.fault = Some(FaultSpec { sym, cls, idx, action: a.clone() });
                    tapes.push(encode_case(&c));
                    n_faults += 1;
                }
            }
        }
        enumerated.push(json!({"scenario": case_json(sets, base), "intercepted_calls": clean.cli.trace.len(), "fault_cases": n_faults}));
    }
    // (3) seeded mixes
    let n_seeded: u64 = std::env::var("VERIF_OS_SEEDED").ok().and_then(|v| v.parse().ok()).unwrap_or(if thorough { 100_000 } else { 2_500 });
    for r in 0..n_seeded {
        let mut ch = Chooser::explore(Rng::derive(seed, "os-seeded", r));
        let mut c = decode_case(&mut ch, sets.len());
        if c.extra == 9 && r % 6 != 0 {
            c.extra = 4; // 256 files per run are expensive: one in six of those draws keeps them
        }
        // most seeded cases carry a fault (the product above covers the fault-free space)
        if c.fault.is_none() && r % 4 != 0 {
            let t = targets();
            let ti = ch.choose("fault_target", t.len() as u64) as usize;
            let idx = if ch.choose("fault_index_small", 4) != 0 { ch.choose("fault_index", t[ti].2.clamp(1, 4)) } else { ch.choose("fault_index", t[ti].2.max(1)) };
            let ai = ch.choose("fault_action", t[ti].3.len() as u64) as usize;
            c.fault = Some(FaultSpec { sym: t[ti].0, cls: t[ti].1, idx, action: t[ti].3[ai].clone() });
        }
        tapes.push(encode_case(&c));
    }
    (tapes, json!({"configuration_product_cases": n_cfg, "configuration_dimensions": {"input_sets": sets.iter().map(|s| s.name.clone()).collect::<Vec<_>>(), "spellings": SPELLINGS, "outputs": OUTPUTS, "preexisting": PRE, "extra_entries": EXTRAS, "extra_entries_in_product": extras, "name_styles": NAME_STYLES, "link_styles": LINK_STYLES, "name_and_link_style_in_product": "varied by a fixed rule across the product; all combinations occur in the seeded mixes"}, "enumerated_only_name_style_cases": n_names, "per_call_index_fault_enumeration": enumerated, "seeded_cases": n_seeded, "configuration_product_complete": thorough}))
}

fn main() {
    let (tier, replay, _extra) = simkernel::parse_cli();
    simkernel::panics::install_hook();
    if !simkernel::shim::present() {
        eprintln!("HARNESS-ERROR: libverifsim.so is not preloaded (run through /verif/check)");
        std::process::exit(2);
    }
    if !cli::zeep_bin().is_file() {
        eprintln!("HARNESS-ERROR: zeep binary not built at {}", cli::zeep_bin().display());
        std::process::exit(2);
    }
    let sets = input_sets();

    if let Some(path) = replay {
        let v = match simkernel::load_replay(&path) {
            Ok(v) => v,
            Err(e) => {
                eprintln!("HARNESS-ERROR: {e}");
                std::process::exit(2);
            }
        };
        let tape = simkernel::tape_values_from_json(&v["tape"]);
        let mut ch = Chooser::replay(tape);
        let c = decode_case(&mut ch, sets.len());
        let res = run_case(&sets, &c);
        for (sp, r) in &res.runs {
            println!("REPLAY run {}", run_json(*sp, r));
        }
        let want_key = v["key"].as_str().unwrap_or("");
        if let Some(f) = res.findings.iter().find(|f| f.key == want_key).or(res.findings.first()) {
            println!("REPLAY property={PROPERTY} class={} key={} :: {}", f.class, f.key, f.detail);
            println!("REPLAY-{}", if f.key == want_key { "REPRODUCED" } else { "DIFFERENT-VIOLATION" });
            println!("VIOLATION property={PROPERTY} replay={}", path.display());
            std::process::exit(1);
        }
        println!("REPLAY property={PROPERTY} no violation");
        std::process::exit(0);
    }

    let mut report = Report::new(PROPERTY, ENGINE, &tier, "fault_enumeration");
    if sets.len() < 8 {
        report.harness_errors.push(format!("only {} input sets could be built", sets.len()));
    }
    let (tapes, product) = build_tapes(&sets, &tier, report.seed);
    let stats = run_batch(&sets, &tapes);

    // vacuity self-probes: the shim must have seen the binary's calls and injected faults must have fired
    if stats.fired.is_empty() {
        report.harness_errors.push("no injected fault fired in the whole batch: the shim is not in effect".into());
    }
    // determinism self-check: a slice twice, different worker count
    let slice: Vec<Vec<u64>> = tapes.iter().step_by((tapes.len() / 300).max(1)).cloned().collect();
    let a = run_batch(&sets, &slice);
    std::env::set_var("VERIF_WORKERS", "5");
    let b = run_batch(&sets, &slice);
    std::env::remove_var("VERIF_WORKERS");
    let mism = u64::from(a.digest != b.digest);
    if mism != 0 {
        report.soft_errors.push("determinism self-check failed: same tapes, different traces/outcomes".into());
    }

    // one violation per key: smallest tape, then shrink
    let mut by_key: BTreeMap<String, (Vec<u64>, Finding)> = BTreeMap::new();
    for (tape, f) in &stats.found {
        let better = by_key.get(&f.key).is_none_or(|(t, _)| (tape.len(), tape.iter().map(|v| v.min(&1000)).sum::<u64>()) < (t.len(), t.iter().map(|v| v.min(&1000)).sum::<u64>()));
        if better {
            by_key.insert(f.key.clone(), (tape.clone(), f.clone()));
        }
    }
    let mut violations = Vec::new();
    for (key, (tape, f)) in &by_key {
        let (min_tape, used) = simkernel::shrink_tape(tape, 60, |t| {
            let mut ch = Chooser::replay(t.to_vec());
            let c = decode_case(&mut ch, sets.len());
            run_case(&sets, &c).findings.iter().any(|x| &x.key == key)
        });
        let mut ch = Chooser::replay(min_tape.clone());
        let c = decode_case(&mut ch, sets.len());
        let res = run_case(&sets, &c);
        let fin = res.findings.iter().find(|x| &x.key == key).cloned().unwrap_or(f.clone());
        violations.push(Violation {
            property: PROPERTY.into(),
            engine: ENGINE.into(),
            class: fin.class.clone(),
            key: key.clone(),
            detail: format!("{} [{} failing cases share this key]", fin.detail, stats.found.iter().filter(|x| &x.1.key == key).count()),
            scenario: case_json(&sets, &c),
            tape: ch.tape_json(),
            observations: json!({"runs": res.runs.iter().map(|(sp, r)| run_json(*sp, r)).collect::<Vec<_>>(), "library_reference": match &res.expected { Expected::Bytes(b) => json!({"ok_bytes": b.len(), "hash": format!("{:016x}", simkernel::hash_bytes(b))}), Expected::Fails(t) => json!({"err": t}), Expected::Unstable => json!("unstable across entropy (C12 territory): byte comparison skipped") }}),
            trace: json!({"shrink_reexecutions": used}),
        });
    }
    report.triage(violations);
    let mut paths = Vec::new();
    for (i, v) in report.violations.iter().enumerate() {
        let p = report.write_replay(v, i);
        let st = std::process::Command::new(std::env::current_exe().unwrap()).arg("--replay").arg(&p).output();
        match st {
            Ok(out) if out.status.code() == Some(1) && String::from_utf8_lossy(&out.stdout).contains("REPLAY-REPRODUCED") => {}
            other => report.harness_errors.push(format!("replay of {} did not reproduce in a fresh process: {:?}", p.display(), other.map(|o| o.status))),
        }
        paths.push(p);
    }

    let coverage = json!({
        "evaluations": stats.runs,
        "cases": stats.cases,
        "distinct_nontrivial": stats.signatures.len(),
        "rule": "one evaluation = one execution of the real zeep binary in a fresh scratch tree under one plan (path spelling, cwd, output option, pre-existing output, extra sibling, entropy, directory order, at most one syscall fault); a case runs the absolute spelling and the tape-chosen spelling. Distinct = distinct case tapes; non-trivial = the case differs from the plain run (a fault, a non-absolute spelling, a pre-existing output, an explicit output or a failing input stage).",
        "samples": stats.samples,
        "exhaustive": true,
        "exhaustive_note": "exhaustive for: a fault at every intercepted call index x every applicable errno/short action of the listed scenarios (quick thins plain output writes beyond index 40 to every 3rd), and (thorough) the full configuration product; the seeded mixes are samples",
        "product": product,
        "runs_per_hour": (stats.runs as f64 / report.start.elapsed().as_secs_f64().max(0.001) * 3600.0) as u64,
        "seeds": [report.seed],
        "faults_fired": stats.fired,
        "probes": stats.probes,
        "simulated_time_ms": "n/a: the binary reads no clock; order is the shim's global call sequence number",
        "real_components": ["the zeep binary built from the working tree (main.rs, clap, env_logger, std, zeep-lib)", "zeep-lib in-process as the reference for expected bytes"],
        "stub_components": ["OS boundary: libverifsim.so interposing open/read/write/writev/close/opendir/readdir/stat*/getrandom"],
        "batch_digest": format!("{:016x}", stats.digest),
        "determinism_selfcheck": {"cases_repeated": slice.len(), "worker_counts": [simkernel::workers(), 5], "mismatches": mism},
        "violating_cases_before_dedup": stats.found.len(),
    });
    report.write_evidence(coverage, &[
        "the binary is dynamically linked against glibc and reaches the OS only through the interposed symbols (self-probe: injected faults fired)",
        "failures of writing/closing the output file itself gate only 'no false success'; survival of the old output there is a probe (DESIGN.md 4.4)",
        "expected bytes come from zeep-lib run in-process on the same files; when that reference is itself entropy-dependent the byte comparison is skipped (C12 territory)",
    ]);
    std::process::exit(report.finish(&paths));
}
