fn main(){}
