//! DET engine (DESIGN.md 4.2) – decides C12: hold the file contents fixed, let the simulator drive every other
//! input of the generation (hash keys, maps created before, thread reuse, registration order, directory order,
//! call history, fresh process) and require byte equality with the canonical environment.

use simkernel::cli::{self, PlanSpec, Scratch};
use simkernel::gen::{gen_wsdl_set, gen_wsdl_set_opt};
use simkernel::inputs::{input_sets, InputSet};
use simkernel::serde_json::{json, Value};
use simkernel::{panics, Chooser, Report, Rng, Violation};
use std::collections::{BTreeMap, BTreeSet, HashMap, HashSet};
use std::path::{Path, PathBuf};
use std::sync::atomic::{AtomicUsize, Ordering};
use std::sync::Mutex;
use zeep_lib::reader::{Files, FilesToRead, WriteXml, XmlReader};
use zeep_lib::utils::read_input_file_and_xsd_files_at_path;

const PROPERTY: &str = "C12";
const ENGINE: &str = "det";

// ------------------------------------------------------------------------------------------------
// workload

struct Work {
    sets: Vec<InputSet>,
    dirs: Vec<PathBuf>, // materialised copy of every set (read-only, shared)
    _scratch: Scratch,
}

fn extra_repo_sets() -> Vec<InputSet> {
    let repo = simkernel::repo_root();
    let mut v = Vec::new();
    let mut one = |name: &str, p: &str| {
        if let Ok(b) = std::fs::read(repo.join(p)) {
            let f = Path::new(p).file_name().unwrap().to_string_lossy().to_string();
            v.push(InputSet { name: name.into(), stage: None, files: vec![(f.clone(), b)], start: f });
        }
    };
    one("aic-agent", "resources/aic/agent_wsdl.xml");
    one("aic-workflow", "resources/aic/workflow_wsdl.xml");
    one("aic-version(rejected)", "resources/aic/version_wsdl.xml");
    one("aacc", "resources/aacc/CustomerWS.wsdl");
    let ex: Vec<(String, Vec<u8>)> = ["services.wsdl", "messages.xsd", "types.xsd"]
        .iter()
        .filter_map(|n| std::fs::read(repo.join("resources/exchange").join(n)).ok().map(|b| ((*n).to_string(), b)))
        .collect();
    if ex.len() == 3 {
        v.push(InputSet { name: "exchange".into(), stage: None, files: ex, start: "services.wsdl".into() });
    }
    v
}

fn build_work(tier: &str, seed: u64) -> Work {
    let mut sets = input_sets();
    sets.extend(extra_repo_sets());
    let n_gen = if tier == "thorough" { 1500 } else { 40 };
    for g in 0..n_gen {
        let mut ch = Chooser::explore(Rng::derive(seed, "det-gen", g));
        // every second generated set uses the wild profile (namespace abbreviation collisions, imports without
        // schemaLocation, shadow siblings): inert on a correct tree, but they give leaked state something to bite on
        let (s, _) = gen_wsdl_set_opt(&mut ch, g, g % 2 == 1);
        sets.push(s);
    }
    let scratch = Scratch::new("det");
    let mut dirs = Vec::new();
    for (i, s) in sets.iter().enumerate() {
        let d = scratch.path.join(format!("s{i}"));
        let _ = std::fs::create_dir_all(&d);
        for (n, b) in &s.files {
            let _ = std::fs::write(d.join(n), b);
        }
        dirs.push(d);
    }
    Work { sets, dirs, _scratch: scratch }
}

// ------------------------------------------------------------------------------------------------
// environment

#[derive(Clone, Debug)]
struct Env {
    entropy: (u64, u64),
    maps_before: u64,
    warm: u64,        // 0: fresh thread; n: another input (index n-1 mod sets) was generated in this thread before
    route: u64,       // 0: Files::new/add API; 1: utils::read_input_file_and_xsd_files_at_path (read_dir)
    reg_perm: Vec<usize>,
    readd: u64,       // 0: none; n: file n-1 is registered a second time with identical content
    dirperm: u64,
    history: Vec<u64>, // per op: 0 read+write on the same FilesToRead; 1 write the same RustDocument again; 2 other input in between, then read+write
}

fn decode_env(ch: &mut Chooser, n_files: usize, n_sets: usize) -> Env {
    let e0 = ch.choose("entropy_lo", u64::MAX);
    let e1 = ch.choose("entropy_hi", u64::MAX);
    let maps_before = ch.choose("maps_created_before", 6);
    let warm = if ch.choose("reused_thread", 2) == 1 { 1 + ch.choose("warm_input", n_sets as u64) } else { 0 };
    let route = ch.choose("route_readdir", 2);
    let reg_perm = ch.permutation("registration", n_files);
    let readd = ch.choose("re_add", n_files as u64 + 1);
    let dirperm = ch.choose("dirperm", u64::MAX);
    let hl = 1 + ch.choose("history_len", 3) as usize;
    let mut history = Vec::new();
    for i in 0..hl {
        let k = ch.choose("history_op", 3);
        history.push(if i == 0 && k == 1 { 0 } else { k });
    }
    Env { entropy: (e0, e1), maps_before, warm, route, reg_perm, readd, dirperm, history }
}

type Out = Result<Vec<u8>, String>;

fn out_sig(o: &Out) -> (bool, u64, usize) {
    match o {
        Ok(b) => (true, simkernel::hash_bytes(b), b.len()),
        Err(t) => (false, simkernel::fnv(t), t.len()),
    }
}

fn build_ftr(set: &InputSet, dir: &Path, env: &Env) -> Result<FilesToRead, String> {
    let api_possible = set.files.iter().any(|(n, _)| n == &set.start) && set.files.iter().all(|(_, b)| std::str::from_utf8(b).is_ok());
    if env.route == 1 || !api_possible {
        simkernel::shim::thread_dirperm(env.dirperm);
        return read_input_file_and_xsd_files_at_path(&dir.join(&set.start)).map_err(|e| format!("{e}"));
    }
    // registration through the public API, in the permuted order; only .xsd siblings and the start file are
    // registered, exactly the set the directory route would register
    let elig: Vec<usize> = (0..set.files.len()).filter(|i| set.files[*i].0 == set.start || set.files[*i].0.ends_with(".xsd")).collect();
    let order: Vec<usize> = env.reg_perm.iter().filter(|i| elig.contains(i)).copied().collect();
    let text = |i: usize| String::from_utf8_lossy(&set.files[i].1).to_string();
    let mut files = Files::new(&set.files[order[0]].0, text(order[0]));
    for i in &order[1..] {
        files.add(&set.files[*i].0, text(*i));
    }
    if env.readd > 0 {
        let i = (env.readd as usize - 1) % set.files.len();
        if elig.contains(&i) {
            files.add(&set.files[i].0, text(i));
        }
    }
    Ok(FilesToRead::new(&set.start, files))
}

fn gen_once(ftr: &FilesToRead) -> (Out, Option<impl WriteXml<Vec<u8>>>) {
    match XmlReader::read_xml(ftr) {
        Err(e) => (Err(format!("read_xml: {e}")), None),
        Ok(doc) => {
            let mut out = Vec::new();
            match doc.write_xml(&mut out) {
                Ok(()) => (Ok(out), Some(doc)),
                Err(e) => (Err(format!("write_xml: {e}")), Some(doc)),
            }
        }
    }
}

/// Runs one environment in a fresh thread. Returns one outcome per history operation and the vacuity probe.
fn run_env(w: &Work, si: usize, env: &Env) -> (Vec<Out>, String) {
    std::thread::scope(|s| {
        s.spawn(move || {
            simkernel::shim::thread_entropy(env.entropy.0, env.entropy.1);
            // vacuity probe: iteration order of a harness-owned map under this run's key
            let mut probe: HashMap<String, ()> = HashMap::new();
            for k in ["a", "b", "c", "d", "e", "f", "g", "h"] {
                probe.insert(k.to_string(), ());
            }
            let order: String = probe.keys().cloned().collect();
            drop(probe);
            let mut keep = Vec::new();
            for _ in 0..env.maps_before {
                let m: HashMap<u32, u32> = HashMap::new();
                keep.push(m);
            }
            let other = |k: usize| {
                let oi = k % w.sets.len();
                let e0 = Env { route: 1, dirperm: 0, ..env.clone() };
                let _ = panics::catch(|| build_ftr(&w.sets[oi], &w.dirs[oi], &e0).map(|f| gen_once(&f).0));
            };
            if env.warm > 0 {
                other(env.warm as usize - 1);
            }
            let set = &w.sets[si];
            let mut outs: Vec<Out> = Vec::new();
            let r = panics::catch(|| {
                let ftr = match build_ftr(set, &w.dirs[si], env) {
                    Ok(f) => f,
                    Err(e) => return vec![Err(format!("files: {e}")); env.history.len()],
                };
                let mut outs = Vec::new();
                let mut last_doc = None;
                for (i, op) in env.history.iter().enumerate() {
                    match op {
                        1 if last_doc.is_some() => {
                            let d = last_doc.as_ref().unwrap();
                            let mut out = Vec::new();
                            outs.push(match WriteXml::<Vec<u8>>::write_xml(d, &mut out) {
                                Ok(()) => Ok(out),
                                Err(e) => Err(format!("write_xml: {e}")),
                            });
                        }
                        _ => {
                            if *op == 2 {
                                other(si + 1 + i);
                            }
                            let (o, d) = gen_once(&ftr);
                            outs.push(o);
                            if d.is_some() {
                                last_doc = d;
                            }
                        }
                    }
                }
                outs
            });
            match r {
                Ok(v) => outs.extend(v),
                Err((m, l)) => outs = vec![Err(format!("panic: {m} at {}", simkernel::norm_loc(&l))); env.history.len()],
            }
            (outs, order)
        })
        .join()
        .unwrap_or_else(|_| (vec![Err("harness thread died".into())], String::new()))
    })
}

fn canonical_env(n_files: usize) -> Env {
    Env { entropy: (0, 0), maps_before: 0, warm: 0, route: 0, reg_perm: (0..n_files).collect(), readd: 0, dirperm: 0, history: vec![0] }
}

fn env_json(e: &Env) -> Value {
    json!({"entropy": format!("{:x}:{:x}", e.entropy.0, e.entropy.1), "maps_created_before": e.maps_before, "reused_thread_after_input": e.warm,
           "route": if e.route == 1 { "read_dir (utils)" } else { "Files::new/add" }, "registration_order": e.reg_perm, "re_added_file": e.readd,
           "dirperm": e.dirperm, "history": e.history.iter().map(|h| ["read+write same FilesToRead", "write same RustDocument again", "other input, then read+write same FilesToRead"][*h as usize]).collect::<Vec<_>>()})
}

fn first_diff(a: &Out, b: &Out) -> String {
    match (a, b) {
        (Ok(x), Ok(y)) => {
            let i = x.iter().zip(y.iter()).position(|(p, q)| p != q).unwrap_or(x.len().min(y.len()));
            let ctx = |v: &[u8]| String::from_utf8_lossy(&v[i.saturating_sub(30)..(i + 50).min(v.len())]).replace('\n', "\\n");
            format!("lengths {} vs {}; first difference at byte {i}: canonical ..{}.. / this run ..{}..", x.len(), y.len(), ctx(x), ctx(y))
        }
        (Ok(x), Err(e)) => format!("canonical Ok({} bytes), this run Err({e})", x.len()),
        (Err(e), Ok(y)) => format!("canonical Err({e}), this run Ok({} bytes)", y.len()),
        (Err(e), Err(f)) => format!("canonical Err({e}), this run Err({f})"),
    }
}

/// Which dimensions of the environment are non-canonical (after shrinking this names the cause).
fn dims(e: &Env, n_files: usize) -> Vec<&'static str> {
    let mut d = Vec::new();
    if e.entropy != (0, 0) {
        d.push("hash-key");
    }
    if e.maps_before != 0 {
        d.push("maps-created-before");
    }
    if e.warm != 0 {
        d.push("reused-thread");
    }
    if e.route != 0 {
        d.push("read_dir-route");
    }
    if e.reg_perm != (0..n_files).collect::<Vec<_>>() {
        d.push("registration-order");
    }
    if e.readd != 0 {
        d.push("re-added-file");
    }
    if e.dirperm != 0 && e.route == 1 {
        d.push("directory-order");
    }
    if e.history.len() > 1 || e.history[0] != 0 {
        d.push(if e.history.contains(&1) && !e.history[1..].iter().any(|h| *h != 1) { "history:write-again" } else { "history:read-again" });
    }
    d
}

// ------------------------------------------------------------------------------------------------

#[derive(Default)]
struct Stats {
    runs: u64,
    outputs: u64,
    probes: BTreeMap<String, u64>,
    dims_explored: BTreeMap<String, u64>,
    probe_orders: HashSet<String>,
    signatures: HashSet<u64>,
    found: Vec<(usize, Vec<u64>, usize)>, // set, tape, history index
    samples: Vec<Value>,
    digest: u64,
}

struct Item {
    set: usize,
    tape: Vec<u64>,
}

fn run_items(w: &Work, canon: &[Out], items: &[Item]) -> Stats {
    let next = AtomicUsize::new(0);
    let out = Mutex::new(Stats::default());
    std::thread::scope(|s| {
        for _ in 0..simkernel::workers() {
            s.spawn(|| {
                let mut st = Stats::default();
                loop {
                    let i = next.fetch_add(1, Ordering::Relaxed);
                    if i >= items.len() {
                        break;
                    }
                    let it = &items[i];
                    let nf = w.sets[it.set].files.len();
                    let mut ch = Chooser::replay(it.tape.clone());
                    let env = decode_env(&mut ch, nf, w.sets.len());
                    let (outs, order) = run_env(w, it.set, &env);
                    st.runs += 1;
                    st.outputs += outs.len() as u64;
                    st.probe_orders.insert(order);
                    let ds = dims(&env, nf);
                    for d in &ds {
                        *st.dims_explored.entry((*d).to_string()).or_insert(0) += 1;
                    }
                    if !ds.is_empty() {
                        let mut sig = it.set as u64;
                        for v in &it.tape {
                            sig = sig.rotate_left(11) ^ v.wrapping_mul(0x9e37_79b9_7f4a_7c15);
                        }
                        st.signatures.insert(sig);
                    }
                    let mut d = i as u64;
                    for (h, o) in outs.iter().enumerate() {
                        let sg = out_sig(o);
                        d = d.rotate_left(9) ^ sg.1 ^ sg.2 as u64;
                        if sg != out_sig(&canon[it.set]) {
                            if st.found.len() < 3000 {
                                st.found.push((it.set, it.tape.clone(), h));
                            }
                            *st.probes.entry("outputs_differing_from_canonical".into()).or_insert(0) += 1;
                        } else {
                            *st.probes.entry(if o.is_ok() { "outputs_equal_ok".to_string() } else { "outcomes_equal_err".to_string() }).or_insert(0) += 1;
                        }
                    }
                    let mut t = d;
                    st.digest = st.digest.wrapping_add(simkernel::splitmix64(&mut t));
                    if i % (items.len() / 5 + 1) == 0 && st.samples.len() < 5 {
                        st.samples.push(json!({"input": w.sets[it.set].name, "tape": ch.tape_json(), "environment": env_json(&env),
                            "outcomes": outs.iter().map(|o| { let s = out_sig(o); json!({"ok": s.0, "hash": format!("{:016x}", s.1), "len": s.2}) }).collect::<Vec<_>>() }));
                    }
                }
                let mut g = out.lock().unwrap();
                g.runs += st.runs;
                g.outputs += st.outputs;
                for (k, v) in st.probes {
                    *g.probes.entry(k).or_insert(0) += v;
                }
                for (k, v) in st.dims_explored {
                    *g.dims_explored.entry(k).or_insert(0) += v;
                }
                g.probe_orders.extend(st.probe_orders);
                g.signatures.extend(st.signatures);
                g.found.extend(st.found);
                g.samples.extend(st.samples);
                g.samples.truncate(8);
                g.digest = g.digest.wrapping_add(st.digest);
            });
        }
    });
    out.into_inner().unwrap()
}

/// One fresh-process run of the real binary for input `si` under environment number `e` (0 = canonical): everything
/// that may differ between two processes is derived from (seed, si, e) - hash key, directory order, clock, pid,
/// environment variables, file creation order and modification times, and (odd e) an earlier conversion of another
/// input sharing cwd and TMPDIR. Used by the batch and by --replay.
fn proc_run(w: &Work, seed: u64, si: usize, e: u64) -> (cli::CliRun, Option<Vec<u8>>, u64, u64) {
    let mut rng = Rng::derive(seed, "det-proc", (si as u64) << 16 | e);
    let (entropy, dirperm) = if e == 0 { (0, 0) } else { (rng.next_u64(), rng.next_u64() | 1) };
    let sc = Scratch::new("detp");
    let top = sc.path.clone();
    let wd = top.join("w");
    let _ = std::fs::create_dir_all(&wd);
    // the files are created in an environment-dependent order and get environment-dependent modification
    // times: "the same file contents" says nothing about either
    let mut order: Vec<usize> = (0..w.sets[si].files.len()).collect();
    for i in 0..order.len().saturating_sub(1) {
        let j = i + (rng.next_u64() % (order.len() - i) as u64) as usize;
        order.swap(i, j);
    }
    for k in order {
        let (n, b) = &w.sets[si].files[k];
        let _ = std::fs::write(wd.join(n), b);
        if e != 0 {
            if let Ok(f) = std::fs::File::options().write(true).open(wd.join(n)) {
                let _ = f.set_modified(std::time::UNIX_EPOCH + std::time::Duration::from_secs(1_000_000_000 + rng.next_u64() % 700_000_000));
            }
        }
    }
    let input = wd.join(&w.sets[si].start);
    let output = top.join("out.rs");
    let _ = std::fs::create_dir_all(top.join("tmp"));
    let plan = PlanSpec { root: top.clone(), input: input.clone(), output: output.clone(), dir: wd.clone(), entropy: (entropy, 0x0d), dirperm, dirorder: vec![], faults: vec![], stderr_full: false, rust_log: [None, Some("debug"), Some("trace")][(entropy % 3) as usize], tmpdir: Some(top.join("tmp")), clock_base: if entropy == 0 { 0 } else { 1_000_000_000 + entropy % 3_000_000_000 }, pid: if dirperm == 0 { 0 } else { 2 + dirperm % 4_000_000 }, extra_env: if entropy == 0 { vec![] } else { vec![("USER".into(), format!("user{}", entropy % 97)), ("HOME".into(), format!("/home/u{}", entropy % 89)), ("LANG".into(), ["C", "de_DE.UTF-8", "ja_JP.UTF-8"][(entropy % 3) as usize].into()), ("TZ".into(), ["UTC", "Asia/Tokyo", "America/St_Johns"][(entropy / 3 % 3) as usize].into()), ("HOSTNAME".into(), format!("host-{}", entropy % 1009)), ("NO_COLOR".into(), "1".into())] } };
    if e % 2 == 1 {
        // process-level history: another input is converted first by a process sharing cwd and TMPDIR
        // (anything the tool keeps on disk between runs would show)
        let oi = (si + 1 + e as usize) % w.sets.len();
        let w0 = top.join("w0");
        let _ = std::fs::create_dir_all(&w0);
        for (n, b) in &w.sets[oi].files {
            let _ = std::fs::write(w0.join(n), b);
        }
        let in0 = w0.join(&w.sets[oi].start);
        let out0 = top.join("warm.rs");
        let p0 = PlanSpec { input: in0.clone(), output: out0.clone(), dir: w0.clone(), ..plan.clone() };
        let a0 = vec!["-i".to_string(), in0.to_string_lossy().to_string(), "-o".to_string(), out0.to_string_lossy().to_string()];
        let _ = cli::run_zeep(&top, &top, &a0, &p0, "p0");
    }
    let args = vec!["-i".to_string(), input.to_string_lossy().to_string(), "-o".to_string(), output.to_string_lossy().to_string()];
    let run = cli::run_zeep(&top, &top, &args, &plan, "p");
    let bytes = std::fs::read(&output).ok();
    (run, bytes, entropy, dirperm)
}

// process tier (D3): the unmodified binary in fresh processes under (entropy, directory order)
struct ProcFinding {
    env: u64,
    set: usize,
    entropy: u64,
    dirperm: u64,
    detail: String,
}

fn process_tier(w: &Work, tier: &str, seed: u64) -> (u64, Vec<ProcFinding>, Vec<Value>) {
    if !cli::zeep_bin().is_file() {
        return (0, vec![], vec![]);
    }
    let n_env = if tier == "thorough" { 96 } else { 16 };
    let names = ["tempconverter", "chain", "orders", "number_services", "hello", "unresolved-reference", "aic-agent", "malformed-sibling"];
    let mut idx: Vec<usize> = names.iter().filter_map(|n| w.sets.iter().position(|s| &s.name == n)).collect();
    if tier == "thorough" {
        idx.extend(w.sets.iter().enumerate().filter(|(_, s)| s.name.starts_with("generated-")).map(|(i, _)| i).take(72));
    } else {
        idx.extend(w.sets.iter().enumerate().filter(|(_, s)| s.name.starts_with("generated-")).map(|(i, _)| i).take(4));
    }
    let jobs: Vec<(usize, u64)> = idx.iter().flat_map(|s| (0..n_env).map(move |e| (*s, e))).collect();
    let next = AtomicUsize::new(0);
    let results: Mutex<BTreeMap<(usize, u64), (Option<i32>, Option<Vec<u8>>, u64, u64)>> = Mutex::new(BTreeMap::new());
    std::thread::scope(|s| {
        for _ in 0..simkernel::workers() {
            s.spawn(|| loop {
                let j = next.fetch_add(1, Ordering::Relaxed);
                if j >= jobs.len() {
                    break;
                }
                let (si, e) = jobs[j];
                let (run, bytes, entropy, dirperm) = proc_run(w, seed, si, e);
                results.lock().unwrap().insert((si, e), (run.exit_code, bytes, entropy, dirperm));
            });
        }
    });
    let results = results.into_inner().unwrap();
    let mut findings = Vec::new();
    let mut samples = Vec::new();
    for si in &idx {
        let base = &results[&(*si, 0)];
        for e in 1..n_env {
            let r = &results[&(*si, e)];
            if r.0 != base.0 || r.1 != base.1 {
                findings.push(ProcFinding {
                    env: e,
                    set: *si,
                    entropy: r.2,
                    dirperm: r.3,
                    detail: format!("fresh process: exit {:?}/{:?}; {}", base.0, r.0, first_diff(&base.1.clone().ok_or(String::new()), &r.1.clone().ok_or(String::new()))),
                });
            }
        }
        if samples.len() < 3 {
            samples.push(json!({"process_tier_input": w.sets[*si].name, "exit": base.0, "output_len": base.1.as_ref().map(Vec::len), "environments": n_env}));
        }
    }
    (jobs.len() as u64, findings, samples)
}

fn replay_case(w: &Work, set_name: &str, tape: &[u64]) -> Result<(Option<(String, String, String)>, Value), String> {
    let si = w.sets.iter().position(|s| s.name == set_name).ok_or_else(|| format!("unknown input set {set_name}"))?;
    let nf = w.sets[si].files.len();
    let canon = run_env(w, si, &canonical_env(nf)).0.remove(0);
    let mut ch = Chooser::replay(tape.to_vec());
    let env = decode_env(&mut ch, nf, w.sets.len());
    let (outs, _) = run_env(w, si, &env);
    let sj = |o: &Out| {
        let s = out_sig(o);
        json!({"ok": s.0, "hash": format!("{:016x}", s.1), "len": s.2})
    };
    let obs = json!({"environment": env_json(&env), "canonical": sj(&canon), "outcomes": outs.iter().map(sj).collect::<Vec<_>>()});
    for o in &outs {
        if out_sig(o) != out_sig(&canon) {
            let key = format!("output-differs:{}", dims(&env, nf).join("+"));
            return Ok((Some(("output-differs".into(), key, first_diff(&canon, o))), obs));
        }
    }
    Ok((None, obs))
}

fn main() {
    let args: Vec<String> = std::env::args().collect();
    if matches!(args.get(1).map(String::as_str), Some("gen" | "gen-net")) {
        // sim-det gen|gen-net <index> <dir>: write one generated file set (gen-net: NET profile + instance documents)
        let net = args[1] == "gen-net";
        let g: u64 = args.get(2).and_then(|s| s.parse().ok()).unwrap_or(0);
        let dir = PathBuf::from(args.get(3).cloned().unwrap_or_else(|| ".".into()));
        let mut ch = Chooser::explore(Rng::derive(simkernel::verif_seed(), if net { "net-gen" } else { "det-gen" }, g));
        let (s, meta) = if net { simkernel::gen::gen_wsdl_set_net(&mut ch, g) } else { gen_wsdl_set(&mut ch, g) };
        let _ = std::fs::create_dir_all(&dir);
        for (n, b) in &s.files {
            std::fs::write(dir.join(n), b).unwrap();
        }
        std::fs::write(dir.join("gen.instances.json"), simkernel::serde_json::to_string_pretty(&meta.instances).unwrap()).unwrap();
        println!("{}", json!({"ops": meta.ops.iter().map(|o| json!({"name": o.name, "header": o.has_header, "parts_attr": o.parts_attr, "parts": o.n_parts})).collect::<Vec<_>>(), "files": meta.n_files, "location": meta.location}));
        return;
    }
    let (tier, replay, _extra) = simkernel::parse_cli();
    panics::install_hook();
    if !simkernel::shim::present() {
        eprintln!("HARNESS-ERROR: libverifsim.so is not preloaded (run through /verif/check)");
        std::process::exit(2);
    }
    let mut report = Report::new(PROPERTY, ENGINE, &tier, "exploration");
    let w = build_work(&tier, report.seed);

    if let Some(path) = replay {
        let v = match simkernel::load_replay(&path) {
            Ok(v) => v,
            Err(e) => {
                eprintln!("HARNESS-ERROR: {e}");
                std::process::exit(2);
            }
        };
        if v["scenario"]["tier"].as_str() == Some("process") {
            // process-tier replay: rerun the two processes
            let si = w.sets.iter().position(|s| Some(s.name.as_str()) == v["scenario"]["input_set"].as_str());
            let (Some(si), Some(e), Some(seed)) = (si, v["scenario"]["environment_index"].as_u64(), v["scenario"]["seed"].as_u64()) else {
                eprintln!("HARNESS-ERROR: bad process replay file");
                std::process::exit(2);
            };
            let a = proc_run(&w, seed, si, 0);
            let b = proc_run(&w, seed, si, e);
            let (a, b) = ((a.0.exit_code, a.1), (b.0.exit_code, b.1));
            if a != b {
                println!("REPLAY property={PROPERTY} class=process-output-differs exit {:?}/{:?}", a.0, b.0);
                println!("REPLAY-REPRODUCED");
                println!("VIOLATION property={PROPERTY} replay={}", path.display());
                std::process::exit(1);
            }
            println!("REPLAY property={PROPERTY} no violation");
            std::process::exit(0);
        }
        let name = v["scenario"]["input_set"].as_str().unwrap_or("").to_string();
        let tape = simkernel::tape_values_from_json(&v["tape"]);
        match replay_case(&w, &name, &tape) {
            Ok((Some((class, key, detail)), obs)) => {
                println!("REPLAY property={PROPERTY} class={class} key={key} :: {detail}\n{obs}");
                println!("REPLAY-{}", if v["key"].as_str() == Some(key.as_str()) { "REPRODUCED" } else { "DIFFERENT-VIOLATION" });
                println!("VIOLATION property={PROPERTY} replay={}", path.display());
                std::process::exit(1);
            }
            Ok((None, obs)) => {
                println!("REPLAY property={PROPERTY} no violation\n{obs}");
                std::process::exit(0);
            }
            Err(e) => {
                eprintln!("HARNESS-ERROR: {e}");
                std::process::exit(2);
            }
        }
    }

    // canonical outcome per input
    let canon: Vec<Out> = (0..w.sets.len()).map(|si| run_env(&w, si, &canonical_env(w.sets[si].files.len())).0.remove(0)).collect();
    let n_env = if tier == "thorough" { 384 } else { 64 };
    let mut items = Vec::new();
    for si in 0..w.sets.len() {
        let big = w.sets[si].files.iter().map(|f| f.1.len()).sum::<usize>() > 300_000;
        let n = if big { n_env / 16 } else { n_env };
        let nf = w.sets[si].files.len() as u64;
        for e in 0..n {
            let mut ch = Chooser::explore(Rng::derive(report.seed, "det-env", (si as u64) << 20 | e));
            // the first environments of every input vary exactly one dimension (directed), the rest are seeded mixes
            let tape: Vec<u64> = match e {
                0 => vec![ch.choose("e", u64::MAX) | 1],                       // hash key only
                1 => vec![0, 0, 0, 0, 0],                                      // canonical again (repeatability)
                2 => { let mut t = vec![0, 0, 0, 0, 0]; t.extend(vec![0; nf.saturating_sub(1) as usize]); t.extend([0, 0, 1, 0, 0]); t } // history: read twice
                3 => { let mut t = vec![0, 0, 0, 0, 0]; t.extend(vec![0; nf.saturating_sub(1) as usize]); t.extend([0, 0, 2, 0, 0, 0]); t } // read three times
                4 => { let mut t = vec![0, 0, 0, 0, 0]; t.extend(vec![0; nf.saturating_sub(1) as usize]); t.extend([0, 0, 1, 0, 1]); t } // write again
                5 => vec![0, 0, 0, 0, 1, ],                                    // read_dir route, sorted
                6 => { let mut t = vec![0, 0, 0, 0, 1]; t.extend(vec![0; nf.saturating_sub(1) as usize]); t.extend([0, ch.choose("d", u64::MAX) | 1]); t } // read_dir, permuted
                7 => vec![0, 0, 3],                                            // maps created before
                8 => vec![0, 0, 0, 1, 2],                                      // reused thread
                _ => {
                    let _ = decode_env(&mut ch, nf as usize, w.sets.len());
                    ch.values()
                }
            };
            items.push(Item { set: si, tape });
        }
    }
    let stats = run_items(&w, &canon, &items);

    // self-probe against vacuity
    if stats.probe_orders.len() < 2 {
        report.harness_errors.push(format!("hash-key self-probe: only {} distinct iteration order(s) seen over {} runs - the entropy seam is not in effect", stats.probe_orders.len(), stats.runs));
    }
    // determinism self-check
    let slice: Vec<Item> = items.iter().step_by((items.len() / 800).max(1)).map(|i| Item { set: i.set, tape: i.tape.clone() }).collect();
    let a = run_items(&w, &canon, &slice);
    std::env::set_var("VERIF_WORKERS", "3");
    let b = run_items(&w, &canon, &slice);
    std::env::remove_var("VERIF_WORKERS");
    let mism = u64::from(a.digest != b.digest);
    if mism != 0 {
        report.soft_errors.push("determinism self-check failed: same (input, tape) gave different outcomes".into());
    }

    let (proc_runs, proc_findings, proc_samples) = process_tier(&w, &tier, report.seed);

    // minimise: a sample of the smallest failing tapes, shrunk; one violation per (shrunk) key
    let mut found = stats.found.clone();
    found.sort_by_key(|(s, t, _)| (w.sets[*s].files.iter().map(|f| f.1.len()).sum::<usize>(), t.len()));
    let mut by_key: BTreeMap<String, (usize, Vec<u64>, String, usize)> = BTreeMap::new();
    let mut seen_rough = BTreeSet::new();
    for (si, tape, _) in found.iter() {
        let nf = w.sets[*si].files.len();
        let mut ch = Chooser::replay(tape.clone());
        let rough = dims(&decode_env(&mut ch, nf, w.sets.len()), nf).join("+");
        if !seen_rough.insert((rough, w.sets[*si].stage.is_some())) && by_key.len() >= 1 && seen_rough.len() > 40 {
            continue;
        }
        if seen_rough.len() > 60 {
            break;
        }
        let name = w.sets[*si].name.clone();
        let (min_tape, _) = simkernel::shrink_tape(tape, 80, |t| matches!(replay_case(&w, &name, t), Ok((Some(_), _))));
        if let Ok((Some((_, key, detail)), _)) = replay_case(&w, &name, &min_tape) {
            let size = w.sets[*si].files.iter().map(|f| f.1.len()).sum::<usize>();
            if by_key.get(&key).is_none_or(|(_, _, _, s)| size < *s) {
                by_key.insert(key, (*si, min_tape, detail, size));
            }
        }
    }
    let mut violations = Vec::new();
    for (key, (si, tape, detail, _)) in &by_key {
        let nf = w.sets[*si].files.len();
        let mut ch = Chooser::replay(tape.clone());
        let env = decode_env(&mut ch, nf, w.sets.len());
        let (_, obs) = replay_case(&w, &w.sets[*si].name, tape).unwrap_or((None, Value::Null));
        violations.push(Violation {
            property: PROPERTY.into(),
            engine: ENGINE.into(),
            class: "output-differs".into(),
            key: key.clone(),
            detail: format!("input {}: {detail} [{} differing outputs in this batch]", w.sets[*si].name, stats.found.len()),
            scenario: json!({"tier": "in-process", "input_set": w.sets[*si].name, "start_file": w.sets[*si].start, "files": w.sets[*si].files.iter().map(|(n, b)| json!({"name": n, "bytes": b.len(), "text": if b.len() < 20_000 { Value::from(String::from_utf8_lossy(b).to_string()) } else { Value::from("(large; taken from the repository/corpus)") }})).collect::<Vec<_>>(), "environment": env_json(&env)}),
            tape: ch.tape_json(),
            observations: obs,
            trace: json!({}),
        });
    }
    // process tier: one violation (smallest input)
    if let Some(pf) = proc_findings.iter().min_by_key(|f| w.sets[f.set].files.iter().map(|x| x.1.len()).sum::<usize>()) {
        violations.push(Violation {
            property: PROPERTY.into(),
            engine: ENGINE.into(),
            class: "process-output-differs".into(),
            key: "process-output-differs:environment".into(),
            detail: format!("input {}: {} (the environments differ in hash key, directory order, clock, pid, RUST_LOG and, for odd ones, an earlier conversion sharing cwd and TMPDIR) [{} differing (input, environment) pairs]", w.sets[pf.set].name, pf.detail, proc_findings.len()),
            scenario: json!({"tier": "process", "input_set": w.sets[pf.set].name, "environment_index": pf.env, "seed": report.seed, "entropy": pf.entropy, "dirperm": pf.dirperm}),
            tape: json!([["entropy", "u64", pf.entropy], ["dirperm", "u64", pf.dirperm]]),
            observations: json!({"detail": pf.detail}),
            trace: json!({}),
        });
    }
    report.triage(violations);
    let mut paths = Vec::new();
    for (i, v) in report.violations.iter().enumerate() {
        let p = report.write_replay(v, i);
        let st = std::process::Command::new(std::env::current_exe().unwrap()).arg(&tier).arg("--replay").arg(&p).output();
        match st {
            Ok(out) if out.status.code() == Some(1) && String::from_utf8_lossy(&out.stdout).contains("REPLAY-REPRODUCED") => {}
            other => report.harness_errors.push(format!("replay of {} did not reproduce in a fresh process: {:?}", p.display(), other.map(|o| (o.status, String::from_utf8_lossy(&o.stdout).chars().take(300).collect::<String>())))),
        }
        paths.push(p);
    }

    let mut samples = stats.samples.clone();
    samples.extend(proc_samples);
    let coverage = json!({
        "evaluations": stats.runs + proc_runs,
        "in_process_runs": stats.runs, "outputs_compared": stats.outputs, "fresh_process_runs": proc_runs,
        "distinct_nontrivial": stats.signatures.len(),
        "rule": "one evaluation = one generation history (1..3 library calls) of one input file set in a fresh thread under one environment tape (hash key, maps created before, thread reuse, API vs read_dir route, registration permutation, re-added file, directory permutation, history), or one fresh-process run of the real binary under (hash key, directory order). Every output is compared byte for byte with the canonical-environment output of the same input. Distinct = distinct (input, tape); non-trivial = the environment differs from the canonical one in at least one dimension.",
        "samples": samples,
        "exhaustive": false,
        "inputs": w.sets.len(),
        "inputs_failing_deterministically": canon.iter().filter(|c| c.is_err()).count(),
        "environments_per_input": n_env,
        "dimensions_explored": stats.dims_explored,
        "probes": stats.probes,
        "hash_key_selfprobe_distinct_orders": stats.probe_orders.len(),
        "runs_per_hour": ((stats.runs + proc_runs) as f64 / report.start.elapsed().as_secs_f64().max(0.001) * 3600.0) as u64,
        "seeds": [report.seed],
        "faults_fired": {"n/a": "C12 has no fault dimension; the simulator owns entropy, order and history instead"},
        "simulated_time_ms": "n/a: no clock is read",
        "real_components": ["zeep_lib::reader::{Files, FilesToRead, XmlReader::read_xml}", "zeep_lib::utils::read_input_file_and_xsd_files_at_path", "the write_xml tree", "the zeep binary (process tier: fresh processes under (hash key, directory order, RUST_LOG), half of them after another conversion sharing cwd and TMPDIR)"],
        "stub_components": ["entropy (getrandom) and readdir order via libverifsim.so"],
        "batch_digest": format!("{:016x}", stats.digest),
        "determinism_selfcheck": {"runs_repeated": slice.len(), "worker_counts": [simkernel::workers(), 3], "mismatches": mism},
        "differing_outputs_before_dedup": stats.found.len(), "differing_process_pairs": proc_findings.len(),
    });
    report.write_evidence(coverage, &[
        "std::collections::HashMap obtains its keys through the interposable getrandom symbol (self-probe: distinct iteration orders were observed)",
        "concurrent calls on one FilesToRead are outside the statement (sequential histories only)",
    ]);
    std::process::exit(report.finish(&paths));
}
