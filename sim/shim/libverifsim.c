/*
 * libverifsim.so - the simulator's side of the OS boundary (DESIGN.md 4.2, 4.4).
 *
 * LD_PRELOADed into the unmodified `zeep` binary and into the in-process harnesses. It owns:
 *   - entropy:   getrandom() answers from a stream chosen by the plan (process) or by the calling thread
 *   - directory enumeration order: readdir64() hands out entries sorted, then permuted as the plan says
 *   - faults:    open/read/write/writev/close/opendir/readdir/stat*, selected by (symbol, path class, index)
 *   - a trace of every intercepted call on a classified path, with a global sequence number
 * The library makes no random choice of its own: everything comes from the plan file named by
 * VERIFSIM_PLAN (written by the harness from the choice tape) or from verifsim_thread_* calls.
 * Without a plan and without thread settings every function is a transparent pass-through.
 */
#define _GNU_SOURCE
#include <dirent.h>
#include <dlfcn.h>
#include <errno.h>
#include <fcntl.h>
#include <limits.h>
#include <pthread.h>
#include <stdarg.h>
#include <stdint.h>
#include <stdio.h>
#include <stdlib.h>
#include <string.h>
#include <sys/stat.h>
#include <sys/syscall.h>
#include <sys/types.h>
#include <sys/uio.h>
#include <unistd.h>

enum { C_NONE = 0, C_INPUT, C_SIBLING, C_OUTPUT, C_DIR, C_OUTTMP, C_NCLS };
/* outtmp: any other file under the root that the program opens for writing (a temporary output file) */
static const char *cls_name[] = {"none", "input", "sibling", "output", "dir", "outtmp"};

enum { S_OPEN = 0, S_READ, S_WRITE, S_WRITEV, S_CLOSE, S_OPENDIR, S_READDIR, S_CLOSEDIR, S_STAT, S_FSTAT, S_RENAME, S_FSYNC, S_TRUNC, S_UNLINK, S_NSYM };
static const char *sym_name[] = {"open", "read", "write", "writev", "close", "opendir", "readdir", "closedir", "stat", "fstat", "rename", "fsync", "ftruncate", "unlink"};

enum { K_ERRNO = 0, K_SHORT };

struct fault {
    int sym, cls, kind;
    long idx;
    long arg;
    int fired;
};

#define MAXFAULT 64
#define MAXFD 4096
#define MAXDIR 256
#define MAXORDER 64

static long g_pid = 4242;            /* what getpid() answers when a plan is loaded */
static long g_clock_base = 1700000000L; /* seconds: what the clock functions start from when a plan is loaded */
static int g_init_done;
static int g_have_plan;
static char g_root[PATH_MAX], g_input[PATH_MAX], g_output[PATH_MAX], g_dir[PATH_MAX];
static int g_ent_set;
static uint64_t g_ent_lo, g_ent_hi, g_gr_calls;
static int g_dirperm_set;
static uint64_t g_dirperm;
static char g_order[MAXORDER][256];
static int g_norder;
static struct fault g_faults[MAXFAULT];
static int g_nfault;
static long g_counter[S_NSYM][C_NCLS];
static unsigned char g_fdcls[MAXFD];
static int g_trace_fd = -1;
static unsigned long g_seq;

static __thread int t_ent_set;
static __thread uint64_t t_ent_lo, t_ent_hi, t_gr_calls;
static __thread int t_dirperm_set;
static __thread uint64_t t_dirperm;

struct dstate {
    DIR *d;
    struct dirent64 *ents;
    int n, pos, cls, used;
};
static struct dstate g_dirs[MAXDIR];

/* ---------------------------------------------------------------- helpers (raw syscalls only) */

static uint64_t splitmix(uint64_t *x) {
    *x += 0x9e3779b97f4a7c15ULL;
    uint64_t z = *x;
    z = (z ^ (z >> 30)) * 0xbf58476d1ce4e5b9ULL;
    z = (z ^ (z >> 27)) * 0x94d049bb133111ebULL;
    return z ^ (z >> 31);
}

static void trace(const char *fmt, ...) {
    if (g_trace_fd < 0) return;
    char buf[1024];
    int n = snprintf(buf, sizeof buf, "%lu ", ++g_seq);
    va_list ap;
    va_start(ap, fmt);
    n += vsnprintf(buf + n, sizeof buf - n - 2, fmt, ap);
    va_end(ap);
    if (n > (int)sizeof buf - 2) n = sizeof buf - 2;
    buf[n++] = '\n';
    syscall(SYS_write, g_trace_fd, buf, (size_t)n);
}

/* lexical normalisation of (dirfd, path) into an absolute path */
static void abspath(int dirfd, const char *p, char *out) {
    char tmp[PATH_MAX * 2];
    tmp[0] = 0;
    if (p[0] != '/') {
        if (dirfd == AT_FDCWD) {
            if (syscall(SYS_getcwd, tmp, (size_t)PATH_MAX) < 0) tmp[0] = 0;
        } else {
            char link[64];
            snprintf(link, sizeof link, "/proc/self/fd/%d", dirfd);
            long n = syscall(SYS_readlinkat, AT_FDCWD, link, tmp, (size_t)PATH_MAX - 1);
            if (n < 0) n = 0;
            tmp[n] = 0;
        }
        strcat(tmp, "/");
    }
    strncat(tmp, p, PATH_MAX - 1);
    /* normalise */
    char *segs[512];
    int ns = 0;
    char *save = NULL;
    for (char *s = strtok_r(tmp, "/", &save); s; s = strtok_r(NULL, "/", &save)) {
        if (strcmp(s, ".") == 0) continue;
        if (strcmp(s, "..") == 0) {
            if (ns > 0) ns--;
            continue;
        }
        if (ns < 512) segs[ns++] = s;
    }
    char *o = out;
    *o = 0;
    if (ns == 0) {
        strcpy(out, "/");
        return;
    }
    for (int i = 0; i < ns; i++) {
        size_t l = strlen(segs[i]);
        if ((o - out) + l + 2 >= PATH_MAX) break;
        *o++ = '/';
        memcpy(o, segs[i], l);
        o += l;
        *o = 0;
    }
}

static int classify_abs(const char *abs) {
    if (!g_have_plan || !g_root[0]) return C_NONE;
    if (g_input[0] && strcmp(abs, g_input) == 0) return C_INPUT;
    if (g_output[0] && strcmp(abs, g_output) == 0) return C_OUTPUT;
    if (g_dir[0] && strcmp(abs, g_dir) == 0) return C_DIR;
    size_t rl = strlen(g_root);
    if (strncmp(abs, g_root, rl) == 0 && (abs[rl] == '/' || abs[rl] == 0)) return C_SIBLING;
    return C_NONE;
}

static int classify(int dirfd, const char *path) {
    if (!g_have_plan || !path) return C_NONE;
    char abs[PATH_MAX];
    abspath(dirfd, path, abs);
    return classify_abs(abs);
}

/* returns the fault that fires for this (sym, cls) occurrence, or NULL; always advances the counter */
static struct fault *next_fault(int sym, int cls, long *idx_out) {
    long idx = g_counter[sym][cls]++;
    if (idx_out) *idx_out = idx;
    for (int i = 0; i < g_nfault; i++) {
        struct fault *f = &g_faults[i];
        if (f->sym == sym && f->cls == cls && f->idx == idx) {
            f->fired = 1;
            return f;
        }
    }
    return NULL;
}

static int lookup(const char *const *names, int n, const char *s) {
    for (int i = 0; i < n; i++)
        if (strcmp(names[i], s) == 0) return i;
    return -1;
}

static void load_plan(void) {
    if (g_init_done) return;
    g_init_done = 1;
    const char *p = getenv("VERIFSIM_PLAN");
    if (!p || !*p) return;
    long fd = syscall(SYS_openat, AT_FDCWD, p, O_RDONLY | O_CLOEXEC, 0);
    if (fd < 0) return;
    static char buf[65536];
    long n = 0, r;
    while ((r = syscall(SYS_read, fd, buf + n, sizeof buf - 1 - (size_t)n)) > 0) n += r;
    syscall(SYS_close, fd);
    buf[n] = 0;
    g_have_plan = 1;
    char *save = NULL;
    for (char *line = strtok_r(buf, "\n", &save); line; line = strtok_r(NULL, "\n", &save)) {
        char key[32], b[64], c[64];
        b[0] = c[0] = 0;
        if (sscanf(line, "%31s", key) != 1) continue;
        const char *rest = line + strlen(key);
        while (*rest == ' ') rest++;
        if (strcmp(key, "root") == 0) strncpy(g_root, rest, PATH_MAX - 1);
        else if (strcmp(key, "input") == 0) strncpy(g_input, rest, PATH_MAX - 1);
        else if (strcmp(key, "output") == 0) strncpy(g_output, rest, PATH_MAX - 1);
        else if (strcmp(key, "dir") == 0) strncpy(g_dir, rest, PATH_MAX - 1);
        else if (strcmp(key, "entropy") == 0) {
            if (sscanf(rest, "%63s %63s", b, c) == 2) {
                g_ent_lo = strtoull(b, NULL, 16);
                g_ent_hi = strtoull(c, NULL, 16);
                g_ent_set = 1;
            }
        } else if (strcmp(key, "pid") == 0) {
            g_pid = strtol(rest, NULL, 10);
        } else if (strcmp(key, "clock") == 0) {
            g_clock_base = strtol(rest, NULL, 10);
        } else if (strcmp(key, "dirperm") == 0) {
            g_dirperm = strtoull(rest, NULL, 10);
            g_dirperm_set = 1;
        } else if (strcmp(key, "dirorder") == 0) {
            if (g_norder < MAXORDER) strncpy(g_order[g_norder++], rest, 255);
        } else if (strcmp(key, "trace") == 0) {
            g_trace_fd = (int)syscall(SYS_openat, AT_FDCWD, rest, O_WRONLY | O_CREAT | O_TRUNC | O_CLOEXEC, 0644);
            if (g_trace_fd >= 0 && g_trace_fd < 64) {
                /* move it out of the way of low fd numbers the program may expect */
                int nf = (int)syscall(SYS_fcntl, g_trace_fd, F_DUPFD_CLOEXEC, 900);
                if (nf >= 0) {
                    syscall(SYS_close, g_trace_fd);
                    g_trace_fd = nf;
                }
            }
        } else if (strcmp(key, "fault") == 0) {
            /* fault <sym> <class> <idx> <errno|short> <arg> */
            char s1[32], s2[32], s4[32];
            long idx, arg;
            if (sscanf(rest, "%31s %31s %ld %31s %ld", s1, s2, &idx, s4, &arg) == 5 && g_nfault < MAXFAULT) {
                struct fault *f = &g_faults[g_nfault];
                f->sym = lookup(sym_name, S_NSYM, s1);
                f->cls = lookup(cls_name, C_NCLS, s2);
                f->idx = idx;
                f->kind = strcmp(s4, "short") == 0 ? K_SHORT : K_ERRNO;
                f->arg = arg;
                if (f->sym >= 0 && f->cls >= 0) g_nfault++;
            }
        }
    }
}

__attribute__((constructor)) static void verifsim_ctor(void) { load_plan(); }

#define REAL(ret, name, ...)                                  \
    static ret (*real_##name)(__VA_ARGS__);                   \
    if (!real_##name) real_##name = dlsym(RTLD_NEXT, #name);

/* ---------------------------------------------------------------- exported control surface */

void verifsim_thread_plan(uint64_t lo, uint64_t hi) {
    t_ent_lo = lo;
    t_ent_hi = hi;
    t_ent_set = 1;
    t_gr_calls = 0;
}
void verifsim_thread_dirperm(uint64_t seed) {
    t_dirperm = seed;
    t_dirperm_set = 1;
}
uint64_t verifsim_thread_getrandom_calls(void) { return t_gr_calls; }
int verifsim_version(void) { return 1; }

/* ---------------------------------------------------------------- process identity and clock (plan only) */

/* A tool may legitimately put its pid or the time into the name of a temporary file: both are sources of
   nondeterminism the simulator has to own, or traces would differ between two runs of the same plan. */
pid_t getpid(void) {
    load_plan();
    if (g_have_plan) return (pid_t)g_pid;
    return (pid_t)syscall(SYS_getpid);
}

#include <time.h>
#include <sys/time.h>
static unsigned long g_clock_calls;
int clock_gettime(clockid_t clk, struct timespec *ts) {
    load_plan();
    if (g_have_plan && ts) {
        unsigned long n = __atomic_fetch_add(&g_clock_calls, 1, __ATOMIC_RELAXED);
        ts->tv_sec = g_clock_base + (long)(n / 1000);
        ts->tv_nsec = (long)(n % 1000) * 1000000L;
        trace("clock_gettime clk=%d call=%lu", (int)clk, n);
        return 0;
    }
    return (int)syscall(SYS_clock_gettime, clk, ts);
}
int gettimeofday(struct timeval *tv, void *tz) {
    load_plan();
    if (g_have_plan && tv) {
        unsigned long n = __atomic_fetch_add(&g_clock_calls, 1, __ATOMIC_RELAXED);
        tv->tv_sec = g_clock_base + (long)(n / 1000);
        tv->tv_usec = (long)(n % 1000) * 1000L;
        return 0;
    }
    return (int)syscall(SYS_gettimeofday, tv, tz);
}
time_t time(time_t *t) {
    load_plan();
    if (g_have_plan) {
        time_t v = g_clock_base;
        if (t) *t = v;
        return v;
    }
    return (time_t)syscall(SYS_time, t);
}

/* ---------------------------------------------------------------- entropy */

ssize_t getrandom(void *buf, size_t len, unsigned int flags) {
    load_plan();
    uint64_t st;
    if (t_ent_set) {
        st = t_ent_lo ^ ((t_ent_hi << 32) | (t_ent_hi >> 32)) ^ (t_gr_calls * 0x9e3779b97f4a7c15ULL);
        t_gr_calls++;
    } else if (g_ent_set) {
        st = g_ent_lo ^ ((g_ent_hi << 32) | (g_ent_hi >> 32)) ^ (g_gr_calls * 0x9e3779b97f4a7c15ULL);
        g_gr_calls++;
        trace("getrandom len=%zu call=%lu", len, (unsigned long)g_gr_calls - 1);
    } else {
        return syscall(SYS_getrandom, buf, len, flags);
    }
    unsigned char *o = buf;
    size_t i = 0;
    while (i < len) {
        uint64_t v = splitmix(&st);
        for (int k = 0; k < 8 && i < len; k++, i++) o[i] = (unsigned char)(v >> (8 * k));
    }
    return (ssize_t)len;
}

/* ---------------------------------------------------------------- open / close */

static int do_open(int dirfd, const char *path, int flags, mode_t mode, int is_at) {
    load_plan();
    int cls = classify(dirfd, path);
    if (cls == C_SIBLING && (flags & O_ACCMODE) != O_RDONLY) cls = C_OUTTMP;
    if (cls != C_NONE) {
        long idx;
        struct fault *f = next_fault(S_OPEN, cls, &idx);
        if (f && f->kind == K_ERRNO) {
            trace("open %s idx=%ld path=%s flags=0x%x -> errno %ld !inj", cls_name[cls], idx, path, flags, f->arg);
            errno = (int)f->arg;
            return -1;
        }
        long fd = syscall(SYS_openat, is_at ? dirfd : AT_FDCWD, path, flags, mode);
        if (fd < 0) {
            int e = (int)-fd;
            /* syscall() already maps to -1/errno */
            e = errno;
            trace("open %s idx=%ld path=%s flags=0x%x -> real errno %d", cls_name[cls], idx, path, flags, e);
            errno = e;
            return -1;
        }
        if (fd < MAXFD) g_fdcls[fd] = (unsigned char)cls;
        trace("open %s idx=%ld path=%s flags=0x%x -> fd", cls_name[cls], idx, path, flags);
        return (int)fd;
    }
    return (int)syscall(SYS_openat, is_at ? dirfd : AT_FDCWD, path, flags, mode);
}

int open64(const char *path, int flags, ...) {
    mode_t mode = 0;
    if (flags & (O_CREAT | O_TMPFILE)) {
        va_list ap;
        va_start(ap, flags);
        mode = va_arg(ap, mode_t);
        va_end(ap);
    }
    return do_open(AT_FDCWD, path, flags | O_LARGEFILE, mode, 0);
}
int open(const char *path, int flags, ...) {
    mode_t mode = 0;
    if (flags & (O_CREAT | O_TMPFILE)) {
        va_list ap;
        va_start(ap, flags);
        mode = va_arg(ap, mode_t);
        va_end(ap);
    }
    return do_open(AT_FDCWD, path, flags, mode, 0);
}
int openat64(int dirfd, const char *path, int flags, ...) {
    mode_t mode = 0;
    if (flags & (O_CREAT | O_TMPFILE)) {
        va_list ap;
        va_start(ap, flags);
        mode = va_arg(ap, mode_t);
        va_end(ap);
    }
    return do_open(dirfd, path, flags | O_LARGEFILE, mode, 1);
}
int openat(int dirfd, const char *path, int flags, ...) {
    mode_t mode = 0;
    if (flags & (O_CREAT | O_TMPFILE)) {
        va_list ap;
        va_start(ap, flags);
        mode = va_arg(ap, mode_t);
        va_end(ap);
    }
    return do_open(dirfd, path, flags, mode, 1);
}

int close(int fd) {
    load_plan();
    int cls = (fd >= 0 && fd < MAXFD) ? g_fdcls[fd] : C_NONE;
    if (fd == g_trace_fd && fd >= 0) return 0; /* the program may not close the simulator's trace */
    if (cls != C_NONE) {
        long idx;
        struct fault *f = next_fault(S_CLOSE, cls, &idx);
        g_fdcls[fd] = C_NONE;
        long r = syscall(SYS_close, fd); /* the descriptor is released even when close reports an error */
        if (f && f->kind == K_ERRNO) {
            trace("close %s idx=%ld -> errno %ld !inj", cls_name[cls], idx, f->arg);
            errno = (int)f->arg;
            return -1;
        }
        trace("close %s idx=%ld -> %ld", cls_name[cls], idx, r);
        return (int)r;
    }
    return (int)syscall(SYS_close, fd);
}

/* ---------------------------------------------------------------- read / write */

ssize_t read(int fd, void *buf, size_t count) {
    int cls = (fd >= 0 && fd < MAXFD) ? g_fdcls[fd] : C_NONE;
    if (cls != C_NONE) {
        long idx;
        struct fault *f = next_fault(S_READ, cls, &idx);
        if (f && f->kind == K_ERRNO) {
            trace("read %s idx=%ld count=%zu -> errno %ld !inj", cls_name[cls], idx, count, f->arg);
            errno = (int)f->arg;
            return -1;
        }
        size_t want = count;
        if (f && f->kind == K_SHORT && (size_t)f->arg < want) want = (size_t)f->arg;
        long r = syscall(SYS_read, fd, buf, want);
        trace("read %s idx=%ld count=%zu%s -> %ld", cls_name[cls], idx, count, f ? " short !inj" : "", r);
        return r;
    }
    return syscall(SYS_read, fd, buf, count);
}

ssize_t write(int fd, const void *buf, size_t count) {
    int cls = (fd >= 0 && fd < MAXFD) ? g_fdcls[fd] : C_NONE;
    if (cls != C_NONE) {
        long idx;
        struct fault *f = next_fault(S_WRITE, cls, &idx);
        if (f && f->kind == K_ERRNO) {
            trace("write %s idx=%ld count=%zu -> errno %ld !inj", cls_name[cls], idx, count, f->arg);
            errno = (int)f->arg;
            return -1;
        }
        size_t want = count;
        if (f && f->kind == K_SHORT && (size_t)f->arg < want) want = (size_t)f->arg;
        long r = syscall(SYS_write, fd, buf, want);
        trace("write %s idx=%ld count=%zu%s -> %ld", cls_name[cls], idx, count, f ? " short !inj" : "", r);
        return r;
    }
    return syscall(SYS_write, fd, buf, count);
}

ssize_t writev(int fd, const struct iovec *iov, int iovcnt) {
    int cls = (fd >= 0 && fd < MAXFD) ? g_fdcls[fd] : C_NONE;
    if (cls != C_NONE) {
        long idx;
        struct fault *f = next_fault(S_WRITEV, cls, &idx);
        if (f && f->kind == K_ERRNO) {
            trace("writev %s idx=%ld -> errno %ld !inj", cls_name[cls], idx, f->arg);
            errno = (int)f->arg;
            return -1;
        }
        if (f && f->kind == K_SHORT && iovcnt > 0) {
            size_t want = iov[0].iov_len;
            if ((size_t)f->arg < want) want = (size_t)f->arg;
            long r = syscall(SYS_write, fd, iov[0].iov_base, want);
            trace("writev %s idx=%ld short !inj -> %ld", cls_name[cls], idx, r);
            return r;
        }
        long r = syscall(SYS_writev, fd, iov, iovcnt);
        trace("writev %s idx=%ld -> %ld", cls_name[cls], idx, r);
        return r;
    }
    return syscall(SYS_writev, fd, iov, iovcnt);
}

/* ---------------------------------------------------------------- rename / fsync / ftruncate / unlink */

static int do_rename(int olddirfd, const char *oldp, int newdirfd, const char *newp, unsigned int flags, int sysno3) {
    load_plan();
    int cls = classify(newdirfd, newp);
    if (cls == C_NONE || cls == C_SIBLING) {
        int c2 = classify(olddirfd, oldp);
        if (c2 != C_NONE) cls = (cls == C_SIBLING && c2 == C_SIBLING) ? C_SIBLING : (cls == C_NONE ? c2 : cls);
    }
    if (cls != C_NONE) {
        long idx;
        struct fault *f = next_fault(S_RENAME, cls, &idx);
        if (f && f->kind == K_ERRNO) {
            trace("rename %s idx=%ld %s -> %s -> errno %ld !inj", cls_name[cls], idx, oldp, newp, f->arg);
            errno = (int)f->arg;
            return -1;
        }
    }
    long r = sysno3 ? syscall(SYS_renameat2, olddirfd, oldp, newdirfd, newp, flags) : syscall(SYS_renameat, olddirfd, oldp, newdirfd, newp);
    int e = errno;
    if (cls != C_NONE) trace("rename %s %s -> %s -> %ld", cls_name[cls], oldp, newp, r);
    errno = e;
    return (int)r;
}
int rename(const char *o, const char *n) { return do_rename(AT_FDCWD, o, AT_FDCWD, n, 0, 0); }
int renameat(int od, const char *o, int nd, const char *n) { return do_rename(od, o, nd, n, 0, 0); }
int renameat2(int od, const char *o, int nd, const char *n, unsigned int fl) { return do_rename(od, o, nd, n, fl, 1); }

static int fd_fault(int sym, int fd) {
    int cls = (fd >= 0 && fd < MAXFD) ? g_fdcls[fd] : C_NONE;
    if (cls != C_NONE) {
        long idx;
        struct fault *f = next_fault(sym, cls, &idx);
        if (f && f->kind == K_ERRNO) {
            trace("%s %s idx=%ld -> errno %ld !inj", sym_name[sym], cls_name[cls], idx, f->arg);
            errno = (int)f->arg;
            return -1;
        }
        trace("%s %s idx=%ld -> real", sym_name[sym], cls_name[cls], idx);
    }
    return 0;
}
int fsync(int fd) {
    if (fd_fault(S_FSYNC, fd)) return -1;
    return (int)syscall(SYS_fsync, fd);
}
int fdatasync(int fd) {
    if (fd_fault(S_FSYNC, fd)) return -1;
    return (int)syscall(SYS_fdatasync, fd);
}
int ftruncate64(int fd, off64_t len) {
    if (fd_fault(S_TRUNC, fd)) return -1;
    return (int)syscall(SYS_ftruncate, fd, len);
}
int ftruncate(int fd, off_t len) {
    if (fd_fault(S_TRUNC, fd)) return -1;
    return (int)syscall(SYS_ftruncate, fd, len);
}
static int do_unlink(int dirfd, const char *path, int flags) {
    load_plan();
    int cls = classify(dirfd, path);
    if (cls != C_NONE) {
        long idx;
        struct fault *f = next_fault(S_UNLINK, cls, &idx);
        if (f && f->kind == K_ERRNO) {
            trace("unlink %s idx=%ld path=%s -> errno %ld !inj", cls_name[cls], idx, path, f->arg);
            errno = (int)f->arg;
            return -1;
        }
    }
    long r = syscall(SYS_unlinkat, dirfd, path, flags);
    int e = errno;
    if (cls != C_NONE) trace("unlink %s path=%s -> %ld", cls_name[cls], path, r);
    errno = e;
    return (int)r;
}
int unlink(const char *p) { return do_unlink(AT_FDCWD, p, 0); }
int unlinkat(int d, const char *p, int fl) { return do_unlink(d, p, fl); }

/* ---------------------------------------------------------------- stat family */

int statx(int dirfd, const char *path_nn, int flags, unsigned int mask, struct statx *buf) {
    /* std probes statx availability with a NULL path (expects EFAULT); glibc declares the parameter nonnull, so
       the compiler would drop a NULL test on it - launder the pointer through a volatile */
    const char *volatile path_v = path_nn;
    const char *path = path_v;
    load_plan();
    int cls, sym;
    if (path && path[0] == 0 && (flags & AT_EMPTY_PATH)) {
        cls = (dirfd >= 0 && dirfd < MAXFD) ? g_fdcls[dirfd] : C_NONE;
        sym = S_FSTAT;
    } else {
        cls = classify(dirfd, path);
        sym = S_STAT;
    }
    if (cls != C_NONE) {
        long idx;
        struct fault *f = next_fault(sym, cls, &idx);
        if (f && f->kind == K_ERRNO) {
            trace("%s %s idx=%ld path=%s -> errno %ld !inj", sym_name[sym], cls_name[cls], idx, path ? path : "", f->arg);
            errno = (int)f->arg;
            return -1;
        }
        long r = syscall(SYS_statx, dirfd, path, flags, mask, buf);
        int e = errno;
        trace("%s %s idx=%ld path=%s -> %ld", sym_name[sym], cls_name[cls], idx, path ? path : "", r);
        errno = e;
        return (int)r;
    }
    return (int)syscall(SYS_statx, dirfd, path, flags, mask, buf);
}

static int path_stat_fault(int dirfd, const char *path) {
    load_plan();
    int cls = classify(dirfd, path);
    if (cls != C_NONE) {
        long idx;
        struct fault *f = next_fault(S_STAT, cls, &idx);
        if (f && f->kind == K_ERRNO) {
            trace("stat %s idx=%ld path=%s -> errno %ld !inj", cls_name[cls], idx, path, f->arg);
            errno = (int)f->arg;
            return -1;
        }
        trace("stat %s idx=%ld path=%s -> real", cls_name[cls], idx, path);
    }
    return 0;
}

int stat64(const char *path, struct stat64 *st) {
    if (path_stat_fault(AT_FDCWD, path)) return -1;
    REAL(int, stat64, const char *, struct stat64 *)
    return real_stat64(path, st);
}
int lstat64(const char *path, struct stat64 *st) {
    if (path_stat_fault(AT_FDCWD, path)) return -1;
    REAL(int, lstat64, const char *, struct stat64 *)
    return real_lstat64(path, st);
}
int fstatat64(int dirfd, const char *path_nn, struct stat64 *st, int flags) {
    const char *volatile path_v = path_nn;
    const char *path = path_v;
    if (path && path[0] && path_stat_fault(dirfd, path)) return -1;
    REAL(int, fstatat64, int, const char *, struct stat64 *, int)
    return real_fstatat64(dirfd, path, st, flags);
}
int fstat64(int fd, struct stat64 *st) {
    int cls = (fd >= 0 && fd < MAXFD) ? g_fdcls[fd] : C_NONE;
    if (cls != C_NONE) {
        long idx;
        struct fault *f = next_fault(S_FSTAT, cls, &idx);
        if (f && f->kind == K_ERRNO) {
            trace("fstat %s idx=%ld -> errno %ld !inj", cls_name[cls], idx, f->arg);
            errno = (int)f->arg;
            return -1;
        }
        trace("fstat %s idx=%ld -> real", cls_name[cls], idx);
    }
    REAL(int, fstat64, int, struct stat64 *)
    return real_fstat64(fd, st);
}

/* ---------------------------------------------------------------- directories */

static int cmp_ent(const void *a, const void *b) {
    return strcmp(((const struct dirent64 *)a)->d_name, ((const struct dirent64 *)b)->d_name);
}

/* the table is shared by all threads of an in-process harness: slot allocation and release are serialised; a slot
   itself is only ever used by the thread that iterates that DIR */
static pthread_mutex_t g_dirs_lock = PTHREAD_MUTEX_INITIALIZER;

static struct dstate *dir_state(DIR *d, int create) {
    struct dstate *found = NULL;
    pthread_mutex_lock(&g_dirs_lock);
    for (int i = 0; i < MAXDIR; i++)
        if (g_dirs[i].used && g_dirs[i].d == d) {
            found = &g_dirs[i];
            break;
        }
    if (!found && create)
        for (int i = 0; i < MAXDIR; i++)
            if (!g_dirs[i].used) {
                memset(&g_dirs[i], 0, sizeof g_dirs[i]);
                g_dirs[i].used = 1;
                g_dirs[i].d = d;
                g_dirs[i].pos = -1;
                found = &g_dirs[i];
                break;
            }
    pthread_mutex_unlock(&g_dirs_lock);
    return found;
}

DIR *opendir(const char *path) {
    load_plan();
    REAL(DIR *, opendir, const char *)
    int cls = classify(AT_FDCWD, path);
    if (cls != C_NONE) {
        long idx;
        struct fault *f = next_fault(S_OPENDIR, cls, &idx);
        if (f && f->kind == K_ERRNO) {
            trace("opendir %s idx=%ld path=%s -> errno %ld !inj", cls_name[cls], idx, path, f->arg);
            errno = (int)f->arg;
            return NULL;
        }
    }
    DIR *d = real_opendir(path);
    int e = errno;
    if (cls != C_NONE) trace("opendir %s path=%s -> %s", cls_name[cls], path, d ? "ok" : "real error");
    if (d && (cls != C_NONE || t_dirperm_set)) {
        struct dstate *s = dir_state(d, 1);
        if (s) s->cls = cls;
    }
    errno = e;
    return d;
}

static void slurp(struct dstate *s) {
    REAL(struct dirent64 *, readdir64, DIR *)
    int cap = 64;
    s->ents = malloc(sizeof(struct dirent64) * (size_t)cap);
    s->n = 0;
    struct dirent64 *e;
    while (s->ents && (e = real_readdir64(s->d)) != NULL) {
        if (s->n == cap) {
            cap *= 2;
            struct dirent64 *ne = realloc(s->ents, sizeof(struct dirent64) * (size_t)cap);
            if (!ne) break;
            s->ents = ne;
        }
        memcpy(&s->ents[s->n++], e, sizeof *e);
    }
    qsort(s->ents, (size_t)s->n, sizeof(struct dirent64), cmp_ent);
    /* explicit order from the plan: listed names first, in the listed order */
    if (g_norder > 0 && s->cls != C_NONE) {
        int placed = 0;
        for (int k = 0; k < g_norder; k++)
            for (int i = placed; i < s->n; i++)
                if (strcmp(s->ents[i].d_name, g_order[k]) == 0) {
                    struct dirent64 t = s->ents[i];
                    memmove(&s->ents[placed + 1], &s->ents[placed], sizeof t * (size_t)(i - placed));
                    s->ents[placed++] = t;
                    break;
                }
    }
    uint64_t seed = 0;
    if (t_dirperm_set) seed = t_dirperm;
    else if (g_dirperm_set && s->cls != C_NONE) seed = g_dirperm;
    if (seed) {
        uint64_t st = seed;
        for (int i = 0; i + 1 < s->n; i++) {
            int j = i + (int)(splitmix(&st) % (uint64_t)(s->n - i));
            struct dirent64 t = s->ents[i];
            s->ents[i] = s->ents[j];
            s->ents[j] = t;
        }
    }
    s->pos = 0;
}

struct dirent64 *readdir64(DIR *d) {
    REAL(struct dirent64 *, readdir64, DIR *)
    struct dstate *s = dir_state(d, 0);
    if (!s) return real_readdir64(d);
    if (s->pos < 0) slurp(s);
    if (s->cls != C_NONE) {
        long idx;
        struct fault *f = next_fault(S_READDIR, s->cls, &idx);
        if (f && f->kind == K_ERRNO) {
            trace("readdir %s idx=%ld -> errno %ld !inj", cls_name[s->cls], idx, f->arg);
            errno = (int)f->arg;
            return NULL;
        }
    }
    if (s->pos >= s->n) {
        if (s->cls != C_NONE) trace("readdir %s -> end", cls_name[s->cls]);
        return NULL; /* errno untouched: end of directory */
    }
    struct dirent64 *e = &s->ents[s->pos++];
    if (s->cls != C_NONE) trace("readdir %s -> %s", cls_name[s->cls], e->d_name);
    return e;
}

struct dirent *readdir(DIR *d) { return (struct dirent *)readdir64(d); }

int closedir(DIR *d) {
    REAL(int, closedir, DIR *)
    struct dstate *s = dir_state(d, 0);
    if (s) {
        struct dirent64 *e = s->ents;
        pthread_mutex_lock(&g_dirs_lock);
        s->ents = NULL;
        s->d = NULL;
        s->used = 0;
        pthread_mutex_unlock(&g_dirs_lock);
        free(e);
    }
    return real_closedir(d);
}
