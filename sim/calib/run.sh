#!/bin/bash
# ./check calibrate : compare the stub reqwest with the real one (real sockets; not a registered check)
set -eu
VERIF=/verif
WS=$VERIF/target/calib/ws
mkdir -p "$WS/src"
export CARGO_NET_OFFLINE=true
"$VERIF/sim/net/run.sh" build-only
"$VERIF/target/net/target/release/net-harness" calibrate-dump hello > "$WS/preds.json"
cp "$VERIF/sim/calib/Cargo.toml" "$WS/Cargo.toml"
[ -f "$WS/Cargo.lock" ] || cp /repo/Cargo.lock "$WS/Cargo.lock"
"$VERIF/target/repo/release/zeep" -i /repo/resources/hello/hello.wsdl -o "$WS/src/client.rs"
SVC=$(grep -oP 'pub struct \K\w+(?= \{\s*$)' "$WS/src/client.rs" | while read -r s; do grep -q "impl $s {" "$WS/src/client.rs" && grep -A1 "pub struct $s {" "$WS/src/client.rs" | grep -q 'reqwest::Client' && echo "$s"; done | head -1)
LINE=$(grep -oP 'pub async fn \w+\(&self, req: \w+\) -> error::SoapResult<\w+>' "$WS/src/client.rs" | head -1)
OP=$(echo "$LINE" | grep -oP 'fn \K\w+'); IN=$(echo "$LINE" | grep -oP 'req: \K\w+')
sed -e "s/@SVC@/$SVC/g" -e "s/@OP@/$OP/g" -e "s/@IN@/$IN/g" "$VERIF/sim/calib/main.rs.in" > "$WS/src/main.rs"
(cd "$WS" && cargo build --release --offline --target-dir "$VERIF/target/calib/target") > "$VERIF/target/logs/build-calib.log" 2>&1 || { tail -30 "$VERIF/target/logs/build-calib.log"; exit 2; }
"$VERIF/target/calib/target/release/calib" "$WS/preds.json" > "$VERIF/calibration.json" && echo "calibration: stub and real reqwest agree" || { echo "calibration: DISAGREEMENTS (see /verif/calibration.json)"; exit 1; }
