#!/usr/bin/env python3
"""Applies each patch to /repo, runs the quick check of its property, reverts. Usage:
   run_patches.py sensitivity [filter]   -> /verif/sensitivity/index.json, results to /verif/sensitivity/results.json
   run_patches.py seeded [filter]        -> /verif/seeded/*/meta.json + patch.diff, results to /verif/seeded/results.json
/repo must be clean before and is clean afterwards."""
import json, os, subprocess, sys, time, glob
mode = sys.argv[1]
flt = sys.argv[2] if len(sys.argv) > 2 else ''
tier = os.environ.get('TIER', 'quick')
def sh(*a, **k): return subprocess.run(*a, capture_output=True, text=True, **k)
assert sh(['git','-C','/repo','status','--porcelain']).stdout.strip()=='' , '/repo is not clean'
items=[]
if mode=='sensitivity':
    for e in json.load(open('/verif/sensitivity/index.json')):
        items.append((e['property'], e['name'], '/verif/sensitivity/'+e['patch'], e['expect']))
    out='/verif/sensitivity/results.json'
elif mode=='benign':
    # behaviour-preserving refactorings written by sub-agents: every claimed check must stay silent
    props={'B1':['C15','C12','C17'],'B2':['C17','C12'],'B3':['C16','C07'],'B5':['C15','C12','C17','C16','C07']}
    for d in sorted(glob.glob('/verif/benign/*/patch.diff')):
        name=os.path.basename(os.path.dirname(d))
        for pr in props[name.split('-')[0]]:
            items.append((pr, name, d, 'silent'))
    out='/verif/benign/results.json'
else:
    for m in sorted(glob.glob('/verif/seeded/*/meta.json')):
        e=json.load(open(m)); d=os.path.dirname(m)
        items.append((e['property'], os.path.basename(d), d+'/patch.diff', 'caught'))
    out='/verif/seeded/results.json'
results=[]
try:
    results=[r for r in json.load(open(out)) if flt and flt not in (r['property']+'-'+r['name'])]
except Exception: results=[]
for prop,name,patch,expect in items:
    if flt and flt not in (prop+'-'+name): continue
    r=sh(['git','-C','/repo','apply',patch])
    if r.returncode!=0:
        results.append({'property':prop,'name':name,'outcome':'patch-does-not-apply','detail':r.stderr[:300]}); continue
    t=time.time()
    try:
        c=sh(['/verif/check',prop,tier],cwd='/verif',timeout=3600)
        code=c.returncode; lines=[l for l in c.stdout.splitlines() if 'class=' in l or l.startswith('VIOLATION') or l.startswith('OK ') or 'KNOWN' in l]; err=c.stderr[-600:]
    finally:
        sh(['git','-C','/repo','checkout','--','.']); sh(['git','-C','/repo','clean','-fdq'])
    outcome={0:'silent',1:'caught',2:'harness-error'}.get(code,'exit-%d'%code)
    ok = (outcome==expect) or (expect=='build-error-ok' and outcome in ('caught','harness-error'))
    results.append({'property':prop,'name':name,'expect':expect,'outcome':outcome,'as_expected':ok,'wall_s':round(time.time()-t,1),
                    'keys':[l.split('key=')[1].split(' ::')[0] for l in lines if 'key=' in l][:12], 'stderr_tail': err if outcome=='harness-error' else ''})
    print(prop,name,'->',outcome,'(expected %s)'%expect, results[-1]['keys'][:4], flush=True)
json.dump(results,open(out,'w'),indent=1)
assert sh(['git','-C','/repo','status','--porcelain']).stdout.strip()=='' , '/repo left dirty'
bad=[r for r in results if not r.get('as_expected',False)]
print('\n%d patches, %d not as expected'%(len(results),len(bad)))
for b in bad: print('  NOT AS EXPECTED:',b['property'],b['name'],b.get('outcome'))
