#!/usr/bin/env python3
"""Creates the hand-written property-breaking (and property-preserving) patches of DESIGN.md section 8 as
/verif/sensitivity/<property>-<name>.diff by textual replacement on /repo (reverted immediately)."""
import subprocess, sys, os
REPO='/repo'
OUT='/verif/sensitivity'
M=[]
def mut(prop, name, file, old, new, count=1, expect='caught'):
    M.append((prop,name,file,old,new,count,expect))

L='zeep-lib/src/model/'
# ---- C15
mut('C15','field-ok','%sfield.rs'%L, '        writeln!(writer, "    pub {}: {},", self.rust_name, possibly_optional_field)?;', '        writeln!(writer, "    pub {}: {},", self.rust_name, possibly_optional_field).ok();')
mut('C15','header-let-underscore','%sfile_header.rs'%L, '        write!(writer, "{HEADER}")?;', '        let _ = write!(writer, "{HEADER}");')
mut('C15','enum-unwrap','%sstructures/restrictions.rs'%L, '                writeln!(writer, "      \\"{value}\\".to_string(),")?;', '                writeln!(writer, "      \\"{value}\\".to_string(),").unwrap();')
mut('C15','header-plain-write','%sfile_header.rs'%L, '        write!(writer, "{HEADER}")?;', '        writer.write(HEADER.as_bytes())?;')
mut('C15','helpers-swallowed','%sdoc.rs'%L, '        Helpers.write_xml(writer)?;', '        let _ = Helpers.write_xml(writer);')
mut('C15','soap-action-expect','%ssoap/binding/writer.rs'%L, '    writeln!(writer, "    let url = \\"{action}\\";")?;', '    writeln!(writer, "    let url = \\"{action}\\";").expect("write url");')
mut('C15','error-remapped','%shelpers.rs'%L, '    writeln!(writer, "  }}")?;\n    writeln!(writer, "}}")?;', '    writeln!(writer, "  }}").map_err(|e| crate::error::WriterError::new(e))?;\n    writeln!(writer, "}}")?;')
mut('C15','final-flush-ignored','%sdoc.rs'%L, '        Helpers.write_xml(writer)?;\n\n        Ok(())', '        Helpers.write_xml(writer)?;\n        let _ = writer.flush();\n\n        Ok(())')
mut('C15','PRESERVING-final-flush-checked','%sdoc.rs'%L, '        Helpers.write_xml(writer)?;\n\n        Ok(())', '        Helpers.write_xml(writer)?;\n        writer.flush()?;\n\n        Ok(())', expect='silent')
# preserving
mut('C15','PRESERVING-write-with-newline','%sdoc.rs'%L, '            writeln!(writer, "}}")?;', '            write!(writer, "}}\\n")?;', expect='silent')
# ---- C12
mut('C12','binding-hashmap','%ssoap/binding/mod.rs'%L, 'BTreeMap', 'HashMap', count=0)
mut('C12','message-hashmap','%ssoap/message.rs'%L, 'BTreeMap', 'HashMap', count=0)
mut('C12','no-flag-reset','zeep-lib/src/reader.rs', '            file.processed.store(false, std::sync::atomic::Ordering::SeqCst);\n', '            let _ = file;\n')
mut('C12','timestamp-in-header','%sfile_header.rs'%L, '        write!(writer, "{HEADER}")?;', '        write!(writer, "{HEADER}")?;\n        let now = std::time::SystemTime::now().duration_since(std::time::UNIX_EPOCH).map_or(0, |d| d.as_secs());\n        writeln!(writer, "// generated at {} (day {})", now / 3600 * 3600, now / 86400)?;')
mut('C12','pid-in-header','%sfile_header.rs'%L, '        write!(writer, "{HEADER}")?;', '        write!(writer, "{HEADER}")?;\n        writeln!(writer, "// generator process {}", std::process::id())?;')
mut('C12','PRESERVING-port-hashmap(keyed access only)','%ssoap/port.rs'%L, 'BTreeMap', 'HashMap', count=0, expect='silent')
# ---- C16
H='%shelpers_content.rs'%L
mut('C16','no-status-check',H, '        response.error_for_status_ref()?;\n', '')
mut('C16','status-check-after-parse',H, '        response.error_for_status_ref()?;\n        let response_body = response.text().await?;\n        let response = yaserde::de::from_str(&response_body).map_err(SoapError::YaserdeError)?;\n        Ok(response)',
    '        let status = response.error_for_status_ref().map(|_| ()).map_err(SoapError::from);\n        let response_body = response.text().await?;\n        if let Ok(parsed) = yaserde::de::from_str(&response_body) {\n            return Ok(parsed);\n        }\n        status?;\n        Err(SoapError::YaserdeError("unparsable".to_string()))')
mut('C16','server-errors-only',H, '        response.error_for_status_ref()?;\n', '        if response.status().is_server_error() {\n            response.error_for_status_ref()?;\n        }\n', expect='build-error-ok')
mut('C16','basic-auth-always',H, '        if let Some((username, password)) = credentials {\n            req = req.basic_auth(username, Some(password));\n        }', '        match credentials {\n            Some((username, password)) => req = req.basic_auth(username, Some(password)),\n            None => req = req.basic_auth("", Some("")),\n        }')
mut('C16','service-drops-credentials','%ssoap/service.rs'%L, '"    let credentials = self.credentials.as_ref().map(|(u, p)| (u.as_str(), p.as_str()));"', '"    let credentials = self.credentials.as_ref().filter(|(u, _)| u.is_ascii()).map(|(u, p)| (u.as_str(), p.as_str()));"')
mut('C16','unwrap-or-default-DISABLED',H+'x', '        let response = yaserde::de::from_str(&response_body).map_err(SoapError::YaserdeError)?;\n        Ok(response)', '        let response = yaserde::de::from_str(&response_body).unwrap_or_default();\n        Ok(response)', expect='build-error-ok')
mut('C16','retry-once',H, '        let response = req.send().await?;', '        let response = match req.try_clone() {\n            Some(again) => match req.send().await {\n                Ok(r) => r,\n                Err(_) => again.send().await?,\n            },\n            None => req.send().await?,\n        };', expect='build-error-ok')
mut('C16','password-trimmed',H, '            req = req.basic_auth(username, Some(password));', '            req = req.basic_auth(username, Some(password.to_string().trim_end_matches(\':\').to_string()));')
# ---- C07
mut('C07','check-after-send',H, '        req.check_restrictions(None)?;\n        let body = yaserde::ser::to_string(&req).map_err(SoapError::YaserdeError)?;\n        let mut req = client.post(url).body(body);', '        let checked = req.check_restrictions(None);\n        let body = yaserde::ser::to_string(&req).map_err(SoapError::YaserdeError)?;\n        let mut req = client.post(url).body(body);')
mut('C07','no-check',H, '        req.check_restrictions(None)?;\n', '')
mut('C07','check-only-with-credentials',H, '        req.check_restrictions(None)?;\n', '        if credentials.is_some() {\n            req.check_restrictions(None)?;\n        }\n')
# ---- C17
Z='zeep/src/main.rs'
mut('C17','create-before-generate',Z, '    let document = XmlReader::read_xml(&files).expect("can not read xml");\n    let mut generated = Vec::new();\n    document.write_xml(&mut generated).expect("can not write xml");\n\n    let mut file = File::create(output_file).expect("can not create file");',
    '    let mut file = File::create(output_file).expect("can not create file");\n    let document = XmlReader::read_xml(&files).expect("can not read xml");\n    let mut generated = Vec::new();\n    document.write_xml(&mut generated).expect("can not write xml");\n')
mut('C17','no-truncate',Z, '    let mut file = File::create(output_file).expect("can not create file");', '    let mut file = std::fs::OpenOptions::new().write(true).create(true).open(output_file).expect("can not create file");')
mut('C17','default-extension',Z, 'from_file_path.with_extension("rs")', 'from_file_path.with_extension("rs.txt")')
mut('C17','scan-current-dir','zeep-lib/src/utils.rs', '        Path::new(".")\n    } else {\n        parent\n    };', '        Path::new(".")\n    } else if parent.is_relative() {\n        Path::new(".")\n    } else {\n        parent\n    };')
mut('C17','write-result-ignored',Z, '    file.write_all(&generated).expect("can not write file");', '    let _ = file.write_all(&generated);')
mut('C17','plain-write',Z, '    file.write_all(&generated).expect("can not write file");', '    file.write(&generated).expect("can not write file");')
mut('C17','exit-zero-on-read-error',Z, '    let document = XmlReader::read_xml(&files).expect("can not read xml");', '    let document = match XmlReader::read_xml(&files) {\n        Ok(d) => d,\n        Err(e) => {\n            eprintln!("can not read xml: {e}");\n            return;\n        }\n    };')
mut('C17','tempfile-rename-unchecked',Z, '    let mut file = File::create(output_file).expect("can not create file");\n    file.write_all(&generated).expect("can not write file");', '    let tmp = output_file.with_extension("rs.tmp");\n    let mut file = File::create(&tmp).expect("can not create file");\n    file.write_all(&generated).expect("can not write file");\n    drop(file);\n    let _ = std::fs::rename(&tmp, &output_file);')
mut('C17','tempfile-sync-unchecked',Z, '    let mut file = File::create(output_file).expect("can not create file");\n    file.write_all(&generated).expect("can not write file");', '    let tmp = output_file.with_extension("rs.tmp");\n    let mut file = File::create(&tmp).expect("can not create file");\n    let _ = file.write_all(&generated);\n    file.sync_all().expect("can not sync");\n    drop(file);\n    std::fs::rename(&tmp, &output_file).expect("can not rename");')
mut('C17','PRESERVING-tempfile-rename-checked',Z, '    let mut file = File::create(output_file).expect("can not create file");\n    file.write_all(&generated).expect("can not write file");', '    let tmp = output_file.with_extension("rs.tmp");\n    let mut file = File::create(&tmp).expect("can not create file");\n    file.write_all(&generated).expect("can not write file");\n    file.sync_all().expect("can not sync");\n    drop(file);\n    std::fs::rename(&tmp, &output_file).expect("can not rename");', expect='silent')
mut('C17','stale-lock-after-failure',Z, '    let mut file = File::create(output_file).expect("can not create file");\n    file.write_all(&generated).expect("can not write file");', '    let lock = output_file.with_extension("lock");\n    if lock.exists() {\n        eprintln!("another zeep run is writing {}", output_file.display());\n        std::process::exit(1);\n    }\n    File::create(&lock).expect("can not create lock");\n    let mut file = File::create(&output_file).expect("can not create file");\n    file.write_all(&generated).expect("can not write file");\n    std::fs::remove_file(&lock).expect("can not remove lock");')
mut('C17','PRESERVING-bufwriter-checked-flush',Z, '    file.write_all(&generated).expect("can not write file");', '    let mut buffered = std::io::BufWriter::new(&mut file);\n    buffered.write_all(&generated).expect("can not write file");\n    buffered.flush().expect("can not flush file");', expect='silent')

os.makedirs(OUT, exist_ok=True)
index=[]
for prop,name,file,old,new,count,expect in M:
    p=os.path.join(REPO,file)
    if not os.path.isfile(p):
        continue
    s=open(p).read()
    if old not in s:
        print('SKIP (pattern not found):',prop,name); continue
    t=s.replace(old,new) if count==0 else s.replace(old,new,count)
    if prop=='C16' and name=='check-after-send': pass
    open(p,'w').write(t)
    if prop=='C07' and name=='check-after-send':
        # the send must happen before the deferred verdict is looked at
        t2=open(p).read().replace('        let response = req.send().await?;\n','        let response = req.send().await?;\n        checked?;\n',1)
        open(p,'w').write(t2)
    d=subprocess.run(['git','-C',REPO,'diff'],capture_output=True,text=True).stdout
    subprocess.run(['git','-C',REPO,'checkout','--','.'],check=True)
    fn=f'{prop}-{name}.diff'.replace('(','_').replace(')','_').replace(' ','_')
    open(os.path.join(OUT,fn),'w').write(d)
    index.append({'property':prop,'name':name,'patch':fn,'expect':expect})
import json
json.dump(index,open(os.path.join(OUT,'index.json'),'w'),indent=1)
print(len(index),'patches written')
