#!/usr/bin/env python3
"""Determinism proof (DESIGN.md section 8): every check's quick tier, N seeds, each seed in two fresh processes with
different worker counts; the order-independent digest of all observations (traces, outcomes, output hashes) and the
number of evaluations must be equal. Writes /verif/determinism.json. Usage: determinism_proof.py [N] [props...]"""
import json, os, subprocess, sys, tempfile, time
N=int(sys.argv[1]) if len(sys.argv)>1 else 8
props=sys.argv[2:] or ['C15','C12','C17','C16','C07']
res={'seeds_per_check':N,'worker_counts':[5,16],'checks':{}}
for p in props:
    rows=[]; mism=0; t0=time.time()
    START=int(os.environ.get('START','1000'))
    for seed in range(START, START+N):
        d=[]
        for w in (5,16):
            tmp=tempfile.mkdtemp(prefix='det-', dir='/verif/target/scratch')
            env=dict(os.environ, VERIF_SEED=str(seed), VERIF_WORKERS=str(w), VERIF_EVIDENCE_DIR=tmp, VERIF_REPLAYS_DIR=tmp)
            c=subprocess.run(['/verif/check',p,'quick'],cwd='/verif',env=env,capture_output=True,text=True)
            try:
                e=json.load(open(os.path.join(tmp,p+'.json')))
                d.append((c.returncode,e['coverage'].get('batch_digest'),e['coverage']['evaluations']))
            except Exception as ex:
                d.append((c.returncode,'no-evidence:'+str(ex),0))
            subprocess.run(['rm','-rf',tmp])
        ok = d[0]==d[1] and d[0][0]==0
        mism += 0 if ok else 1
        rows.append({'seed':seed,'runs':d,'equal':ok})
        print(p,seed,d,'OK' if ok else 'MISMATCH',flush=True)
    res['checks'][p]={'seeds':N,'mismatches':mism,'wall_s':round(time.time()-t0,1),'rows':rows}
json.dump(res,open(os.environ.get('OUT','/verif/determinism.json'),'w'),indent=1)
print('mismatches:',{p:v['mismatches'] for p,v in res['checks'].items()})
