#!/usr/bin/env python3
"""import_seeded.py <prop> <dest-suffix> <src-dir> <needs-text> <ran-text>: copy <src-dir> to /verif/seeded/<prop>-<suffix>/ with meta.json"""
import sys, os, shutil, json
prop,suffix,src,needs,ran=sys.argv[1:6]
dst=f'/verif/seeded/{prop}-{suffix}'
if os.path.isdir(dst): shutil.rmtree(dst)
shutil.copytree(src,dst, ignore=shutil.ignore_patterns('target','*.rlib','Cargo.lock'))
json.dump({"property":prop,"origin":"fresh sub-agent given only the property text and its own scratch worktree","needs_to_manifest":needs,"confirmed_by_me":ran}, open(dst+'/meta.json','w'), indent=1)
print('imported',dst, sorted(os.listdir(dst)))
