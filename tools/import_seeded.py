#!/usr/bin/env python3
"""import_seeded.py <prop> <i> <needs-text> <ran-text>: copy /tmp/wt-<prop>/seeded/<i> to /verif/seeded/<prop>-<i>/ with meta.json"""
import sys, os, shutil, json
prop,i,needs,ran=sys.argv[1:5]
src=f'/tmp/wt-{prop}/seeded/{i}'
dst=f'/verif/seeded/{prop}-{i}'
if os.path.isdir(dst): shutil.rmtree(dst)
shutil.copytree(src,dst, ignore=shutil.ignore_patterns('target','*.rlib','Cargo.lock'))
json.dump({"property":prop,"origin":"fresh sub-agent given only the property text and its own scratch worktree","needs_to_manifest":needs,"confirmed_by_me":ran}, open(dst+'/meta.json','w'), indent=1)
print('imported',dst, os.listdir(dst))
