#!/bin/bash
# run before every commit: all five quick checks on the unchanged tree under the default seed and one other seed
set -u
cd /verif
[ -z "$(git -C /repo status --porcelain)" ] || { echo "/repo is not clean"; exit 1; }
bad=0
for seed in "" 1; do
  for p in C15 C12 C17 C16 C07; do
    if [ -n "$seed" ]; then out=$(VERIF_SEED=$seed VERIF_EVIDENCE_DIR=/verif/target/scratch/pc-ev VERIF_REPLAYS_DIR=/verif/target/scratch/pc-ev ./check $p quick 2>&1); else out=$(./check $p quick 2>&1); fi
    rc=$?
    echo "seed=${seed:-default} $p rc=$rc $(echo "$out" | tail -1 | cut -c1-120)"
    [ $rc -eq 0 ] || bad=1
  done
done
rm -rf /verif/target/scratch/pc-ev
exit $bad
