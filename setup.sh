#!/bin/bash
# setup_cmd: build the framework from files on disk only (offline).
set -e
cd /verif
export CARGO_NET_OFFLINE=true
mkdir -p target/logs target/shim target/scratch evidence replays
gcc -O2 -Wall -Wno-nonnull-compare -fno-delete-null-pointer-checks -fPIC -shared -o target/shim/libverifsim.so sim/shim/libverifsim.c -ldl -lpthread
(cd sim && cargo build --release --offline)
(cd /repo && cargo build --release --offline -p zeep --target-dir /verif/target/repo)
sim/net/run.sh build-only
echo "setup ok"
