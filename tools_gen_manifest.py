#!/usr/bin/env python3
"""Regenerates MANIFEST.json from the table below (kept as a script so that the manifest stays consistent)."""
import json, sys

CLAIMED = {}  # filled below
NA = {
 "C01": "Compilability of the emitted file is a pure function of the input files, decided by rustc; there is no schedule, clock, fault or interleaving in it for a simulator to own.",
 "C02": "The struct/field/type mapping is a pure function of the schema (builtin table x occurrence flags x nesting); deciding it is input enumeration plus type checking, not simulation.",
 "C03": "Serialization of a generated type is a pure function of (schema, value) through yaserde; no I/O, time or concurrency is involved.",
 "C04": "Deserialize/serialize round-trips are pure functions of (schema, instance text); nothing in them can be perturbed by a fault or schedule.",
 "C05": "Envelope structure and the method set are static text determined by the WSDL; only 'posts to the port address' touches I/O and that clause is monitored as invariant N1 of the C16 simulation without claiming C05.",
 "C06": "check_restrictions on a simple value is a total pure function over a bounded domain; deciding it is exhaustive enumeration against the XSD definition (model checking / testing), which this family explicitly is not.",
 "C08": "Member order of derived types is a pure function of the schema set (base lookup and field copying are deterministic, Vec-based).",
 "C09": "QName resolution is a pure function of the schema set; permuting declaration order or file split is an input transformation, not a schedule.",
 "C10": "Prefix/module assignment is a pure function of the schema set and the order in which namespaces are met in the text; import order is part of the input, not an interleaving the simulator could own.",
 "C11": "Reachability, once-only reading and termination over import graphs are a pure function of (file set, start file); deciding 'all graphs over <= 4 files' is exhaustive bounded enumeration. The only history-bearing state (processed flags across calls) is covered under C12.",
 "C13": "Absence of panics/hangs over arbitrary input text is input-space robustness (fuzzing); no fault, clock or schedule participates.",
 "C14": "Whether schema text reaches the output only as data is a pure function of the input text, decided by parsing/compiling the output.",
 "C18": "Send/Sync of emitted futures and envelopes are auto-trait obligations discharged at compile time; no simulated execution can confirm or refute a type-level fact.",
 "C19": "MultiRef<T> forwards pure functions of an immutable value; sharing is Arc pointer identity; there is no interior mutability, so no interleaving can distinguish wrapped from bare.",
}
UNDER_CONSTRUCTION = {}

def chk(pid, cat, text, ref, note, technique, engine):
    return {
        "property_id": pid,
        "quick_cmd": f"./check {pid} quick",
        "thorough_cmd": f"./check {pid} thorough",
        "evidence_file": f"/verif/evidence/{pid}.json",
        "replay_cmd_template": f"./check {pid} --replay {{path}}",
        "engine": engine,
        "level_claimed": {"category": cat, "text": text, "design_ref": ref},
        "level_note": note,
        "technique": technique,
    }

CHECKS = json.load(open('/verif/manifest_checks.json'))
man = {
 "version": 1,
 "setup_cmd": "./setup.sh",
 "hooks": {
   "guard": "zeep_verif",
   "enable": "not needed: every nondeterminism/fault source has a pre-existing seam (W: io::Write, libc symbols via LD_PRELOAD, the reqwest crate boundary); checks build /repo's working tree unmodified",
   "baseline_off_cmd": "cd /repo && cargo test --workspace --no-fail-fast --offline",
   "source_commits": [],
   "add_only": True,
 },
 "engines": CHECKS["engines"],
 "checks": [chk(**c) for c in CHECKS["checks"]],
 "notes": CHECKS["notes"],
 "not_applicable": [{"property_id": k, "reason": v} for k, v in sorted({**NA, **CHECKS.get("pending", {})}.items())],
}
json.dump(man, open('/verif/MANIFEST.json', 'w'), indent=1)
print("MANIFEST.json written:", [c["property_id"] for c in man["checks"]], "n/a:", len(man["not_applicable"]))
